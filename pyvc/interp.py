"""
pyvc.interp -- symbolic execution of real function ASTs (one path at a time, decision-trace re-execution).

The interpreter walks the ast of the function exactly as it stands in /repo.  Values are either concrete Python
values (evaluated natively) or symbolic ones (z3 terms, heap objects, arrays given by closures).  Loops over
concrete sequences are unrolled; loops over symbolic-length sequences are summarised (map / fold / scatter-add) and the
summary is *verified* by an inductive-step obligation, see _summarise_loop.
"""
import ast
import math
import z3
import numpy as np

from . import core, sums
from .core import (
    ObjV, SymList, MapSeq, LArr, LArr2, HeapArr1, HeapArr2, HeapCol, Opaque, Unsupported, CheckerError,
    is_z3, to_z3num, to_real, fresh, conj, disj, neg, ite, NONE, typeof, alloc, CLASSES, str_const,
)


# ------------------------------------------------------------------------------------------------ control flow
class _Return(Exception):
    def __init__(self, value):
        self.value = value


class _Raise(Exception):
    def __init__(self, exc_class, node=None, cause=None):
        self.exc_class = exc_class
        self.node = node


class _Break(Exception):
    pass


class _Continue(Exception):
    pass


class Infeasible(Exception):
    """the current path condition is unsatisfiable; the path is dropped"""


class Aborted(Infeasible):
    """execution cannot continue past a point whose unreachability has just been recorded as an obligation (a definite
    failure such as a missing key or a division by a literal zero): the path ends here but its obligations are kept"""


# ------------------------------------------------------------------------------------------------ auxiliary values
class ClassV:
    def __init__(self, name, module):
        self.name = name
        self.module = module


class FuncV:
    def __init__(self, info, closure_env=None):
        self.info = info
        self.closure_env = closure_env


class LambdaV:
    def __init__(self, node, env):
        self.node = node
        self.env = env


class BoundMethod:
    def __init__(self, obj, name):
        self.obj = obj
        self.name = name


class FuncBound:
    def __init__(self, obj, info):
        self.obj = obj
        self.info = info


class ArrMethod:
    def __init__(self, arr, name):
        self.arr = arr
        self.name = name


class ModuleV:
    def __init__(self, name):
        self.name = name


class BuiltinV:
    def __init__(self, name, fn):
        self.name = name
        self.fn = fn


class GenV:
    """an unevaluated generator expression / comprehension"""

    def __init__(self, node, env):
        self.node = node
        self.env = env


class ForallV:
    """all(body for x in seq) over a symbolic-length sequence: n and a closure k -> z3 Bool"""

    def __init__(self, n, body, elem=None):
        self.n = n
        self.body = body
        self.elem = elem  # optional: k -> the element term (an index expression such as 1 + k for range(1, R))


class ExistsV:
    def __init__(self, n, body, elem=None):
        self.n = n
        self.body = body
        self.elem = elem


class PyObjV:
    """an object whose attributes are interpreter values held in a Python dict (used when the object's shape is concrete,
    e.g. a Covout with n programs); methods and properties are still the real ones, read from the parsed class"""

    def __init__(self, cls, module, fields):
        self.cls = cls
        self.module = module
        self.fields = fields


class ImpliesV:
    """implies(A, B) with a quantified antecedent: B is evaluated (thunk) once A has been assumed"""

    def __init__(self, antecedent, thunk):
        self.antecedent = antecedent
        self.thunk = thunk


class OptV:
    """value of an optional scalar field: `isnone` (z3 Bool) and the value when present; forks only when it is used as a number"""

    def __init__(self, isnone, val):
        self.isnone = isnone
        self.val = val


class QFact:
    """a universally quantified assumption, kept as a term over placeholder index variables and instantiated on the
    registered index terms (quantifier-free reasoning).  ranges[i] is the exclusive upper bound of vars[i] (lower bound 0)."""

    def __init__(self, qvars, ranges, term, name=""):
        self.qvars = list(qvars)
        self.ranges = list(ranges)
        self.term = term
        self.name = name

    def instance(self, *ks):
        ck = tuple(k.get_id() if is_z3(k) else k for k in ks)
        cache = self.__dict__.setdefault("_cache", {})
        if ck not in cache:
            cache[ck] = (ks, self._instance(*ks))
        return cache[ck][1]

    def _instance(self, *ks):
        pairs = list(zip(self.qvars, [to_z3num(k) for k in ks]))
        rng = []
        for q, n, k in zip(self.qvars, self.ranges, ks):
            k = to_z3num(k)
            rng += [0 <= k, k < z3.substitute(to_z3num(n), *pairs)]
        return z3.Implies(z3.And(rng), z3.substitute(self.term, *pairs))

    def instances(self, terms):
        import itertools

        return [self.instance(*ks) for ks in itertools.product(list(terms), repeat=len(self.qvars))]


class Obligation:
    def __init__(self, name, kind, assumptions, goal, line=None, qfacts=(), index_terms=(), note=""):
        self.name = name
        self.kind = kind
        self.assumptions = list(assumptions)
        self.goal = goal
        self.line = line
        self.qfacts = list(qfacts)
        self.index_terms = list(index_terms)
        self.note = note
        self.status = None
        self.model = None
        self.seconds = 0.0
        self.backend = None
        self.witness = None


class Chooser:
    def __init__(self, prefix=()):
        self.prefix = list(prefix)
        self.trace = []

    def choose(self, n):
        i = len(self.trace)
        c = self.prefix[i] if i < len(self.prefix) else 0
        self.trace.append((c, n))
        return c


def explore(run):
    """run(chooser) -> result; enumerates all decision sequences depth-first"""
    results = []
    stack = [[]]
    while stack:
        prefix = stack.pop()
        ch = Chooser(prefix)
        try:
            res = run(ch)
            results.append(res)
        except Infeasible:
            pass
        for i in range(len(prefix), len(ch.trace)):
            c, n = ch.trace[i]
            for alt in range(c + 1, n):
                stack.append([x for x, _ in ch.trace[:i]] + [alt])
        if len(results) > 4000:
            raise Unsupported("path explosion (>4000 paths)")
    return results


def is_arr(v):
    return isinstance(v, (LArr, HeapArr1, HeapCol)) or (isinstance(v, MapSeq) and v.is_array) or (isinstance(v, np.ndarray) and v.ndim == 1)


def is_arr2(v):
    return isinstance(v, (LArr2, HeapArr2)) or (isinstance(v, np.ndarray) and v.ndim == 2)


def is_concrete(v):
    if isinstance(v, Opaque):
        return False
    if is_z3(v) or isinstance(v, (ObjV, SymList, MapSeq, LArr, LArr2, HeapArr1, HeapArr2, HeapCol, GenV, ForallV, ExistsV)):
        return False
    if isinstance(v, (list, tuple)):
        return all(is_concrete(x) for x in v)
    if isinstance(v, dict):
        return all(is_concrete(x) for x in v.values())
    if isinstance(v, np.ndarray) and v.dtype == object:
        return all(is_concrete(x) for x in v.ravel())
    return True


def simp(t):
    return z3.simplify(t) if is_z3(t) else t


def concrete_int(t):
    if isinstance(t, (int, np.integer)) and not isinstance(t, bool):
        return int(t)
    if is_z3(t):
        s = z3.simplify(t)
        if z3.is_int_value(s):
            return s.as_long()
    return None


class Interp:
    def __init__(self, module, schema, mode="REAL", contracts=None, inline=None, feas_timeout=2000):
        self.module = module
        self.schema = schema  # class -> {field: kind}
        self.mode = mode
        self.contracts = contracts or {}
        self.inline = inline  # None = inline everything that has source
        self.heap = core.Heap("h")
        self.pc = []
        self.facts = []  # background facts (append only; valid on every path)
        self.qfacts = []
        self.index_terms = []
        self.obligations = []
        self.chooser = Chooser()
        self.feas_timeout = feas_timeout
        self.alloc_counter = 0
        self.assumptions_log = set()  # library contracts / modelling assumptions actually used
        self.func_stack = []
        self.write_log = None
        self.spec_mode = False
        self.old_state = None
        self.depth = 0
        self.ghost = {}
        self._seen_elems = set()
        self.oblig_prefix = ""
        self.definedness = True
        self._init_classes()

    # ------------------------------------------------------------------------------------------ setup
    def _init_classes(self):
        for name, (node, bases) in self.module.classes.items():
            CLASSES.add(name, bases)
        for name in self.schema:
            if name.startswith("__"):
                continue
            if name not in CLASSES.ids:
                CLASSES.add(name, [])

    def field_kind(self, classes, field):
        kinds = set()
        for c in classes:
            k = None
            for anc in self._mro(c):
                if anc in self.schema and field in self.schema[anc]:
                    k = self.schema[anc][field]
                    break
            kinds.add(k)
        if len(kinds) != 1:
            raise Unsupported("field %s has different kinds %s over classes %s" % (field, kinds, sorted(classes)))
        k = kinds.pop()
        if k is None:
            raise Unsupported("field %s of %s is not in the schema" % (field, sorted(classes)))
        return k

    def class_home(self, c):
        """the parsed module that defines class c: the module of the function under contract, or the contract's `class_module`
        (objects of another module's classes handled by this function)"""
        if c in self.module.classes:
            return self.module
        cm = getattr(self, "class_module", None)
        if cm is not None and c in cm.classes:
            return cm
        return None

    def _mro(self, c):
        home = self.class_home(c)
        if home is not None:
            return home.mro(c)
        out = [c]
        for b in CLASSES.bases.get(c, []):
            out += self._mro(b)
        return out

    def subclasses(self, c):
        return CLASSES.subclasses(c)

    def new_obj(self, name, classes, maybe_none=False):
        r = z3.Const(name, core.Ref)
        classes = self._expand(classes)
        self.facts.append(CLASSES.classset_term(r, classes) if not maybe_none else z3.Or(r == NONE, CLASSES.classset_term(r, classes)))
        self.facts.append(alloc(r) <= 0)
        if not maybe_none:
            self.facts.append(r != NONE)
        return ObjV(r, classes, maybe_none)

    def _expand(self, classes):
        out = set()
        for c in classes:
            out.update(self.subclasses(c))
        return frozenset(out)

    # ------------------------------------------------------------------------------------------ path condition
    def assume(self, c):
        if c is True:
            return
        if c is False:
            raise Infeasible()
        self.pc.append(c)

    def feasible(self, extra=None):
        s = z3.Solver()
        s.set("timeout", self.feas_timeout)
        s.add(*self.facts)
        s.add(*self.pc)
        if extra is not None:
            s.add(extra)
        inst = []
        for q in self.qfacts:
            inst += q.instances(self.index_terms)
        s.add(*inst)
        s.add(*core.list_axiom_instances(list(self.pc) + inst + ([extra] if extra is not None else [])))
        r = s.check()
        return r != z3.unsat

    def branch(self, cond):
        """decide a symbolic condition: returns True/False and records it in the path condition"""
        if isinstance(cond, (bool, np.bool_)):
            return bool(cond)
        cond = simp(cond)
        if z3.is_true(cond):
            return True
        if z3.is_false(cond):
            return False
        # a condition that is already decided by the path condition is not a choice point (and must not make the
        # enclosing construct look infeasible)
        f_true = self.feasible(cond)
        f_false = self.feasible(z3.Not(cond))
        if f_true and not f_false:
            self.pc.append(cond)
            return True
        if f_false and not f_true:
            self.pc.append(z3.Not(cond))
            return False
        if not f_true and not f_false:
            raise Infeasible()
        c = self.chooser.choose(2)
        if c == 0:
            self.pc.append(cond)
            return True
        self.pc.append(z3.Not(cond))
        return False

    def add_forall(self, v, name=""):
        """assume a (possibly nested) ForallV: kept as a QFact over placeholder variables"""
        qvars, ranges = [], []
        cur = v
        while isinstance(cur, ForallV):
            q = fresh("q", z3.IntSort())
            qvars.append(q)
            ranges.append(to_z3num(cur.n))
            b = cur.body(q)
            cur = b if isinstance(b, (ForallV, bool)) else self.truth(b)
        if isinstance(cur, bool):
            cur = z3.BoolVal(cur)
        if not is_z3(cur):
            raise Unsupported("body of a quantified assumption is %r" % (cur,))
        self.qfacts.append(QFact(qvars, ranges, cur, name))

    def branch_quantified(self, c):
        """decide a condition of the form  P and (forall k. B(k))  /  P and (exists k. B(k))  (P optional)"""
        plain = True
        q = c
        if isinstance(c, tuple) and c and c[0] == "and":
            plain = conj(*c[1])
            q = c[2]
        n = to_z3num(q.n)
        if isinstance(q, ForallV):
            alt = self.chooser.choose(3)
            if alt == 0:
                self.assume(plain)
                self.add_forall(q, "branch")
                if not self.feasible():
                    raise Infeasible()
                return True
            if alt == 1:
                self.assume(neg(plain))
                if not self.feasible():
                    raise Infeasible()
                return False
            sk = fresh("wit", z3.IntSort())
            self.register_index(sk)
            self.assume(plain)
            self.assume(z3.And(0 <= sk, sk < n))
            b = self.truth(q.body(sk))
            if isinstance(b, (ForallV, ExistsV)):
                raise Unsupported("nested quantifier in a branch condition")
            self.assume(neg(b))
            if not self.feasible():
                raise Infeasible()
            return False
        # exists
        alt = self.chooser.choose(3)
        if alt == 0:
            sk = fresh("wit", z3.IntSort())
            self.register_index(sk)
            b = self.truth(q.body(sk))
            self.assume(conj(plain, z3.And(0 <= sk, sk < n), b))
            if not self.feasible():
                raise Infeasible()
            return True
        if alt == 1:
            self.assume(neg(plain))
            if not self.feasible():
                raise Infeasible()
            return False
        self.assume(plain)
        self.add_forall(ForallV(q.n, lambda k, q=q: neg(self.truth(q.body(k)))), "branch")
        if not self.feasible():
            raise Infeasible()
        return False

    def oblige(self, kind, name, goal, line=None, note=""):
        if goal is True:
            return
        if isinstance(goal, bool):
            goal = z3.BoolVal(goal)
        ob = Obligation(self.oblig_prefix + name, kind, list(self.facts) + list(self.pc), goal, line, qfacts=list(self.qfacts), index_terms=list(self.index_terms), note=note)
        self.obligations.append(ob)
        return ob

    def make_sum(self, fn, lo, hi):
        """SUM_{lo <= k < hi} fn(k); fn is evaluated for a generic in-range index (so dispatch on the element's class can use
        the quantified assumptions), silently (definedness of the summand is the caller's business)"""

        def wrapped(k):
            self.index_terms.append(k)
            self.pc.append(z3.And(to_z3num(lo) <= k, k < to_z3num(hi)))
            save = self.definedness
            self.definedness = False
            try:
                return fn(k)
            finally:
                self.definedness = save
                self.pc.pop()
                self.index_terms.pop()

        K = sums.K
        lo_t, hi_t = to_z3num(lo), to_z3num(hi)
        ctx = {"solver": None}

        def solver():
            if ctx["solver"] is None:
                s = z3.Solver()
                s.set("timeout", 2000)
                base = list(self.facts) + list(self.pc) + [lo_t <= K, K < hi_t]
                for q in self.qfacts:
                    base += q.instances(list(self.index_terms) + [K])
                s.add(*base)
                ctx["solver"] = s
                ctx["base"] = base
            return ctx["solver"]

        def valid(f):
            s = solver()
            s.push()
            s.add(z3.Not(f))
            s.add(*core.list_axiom_instances(ctx["base"] + [f]))
            r = s.check()
            s.pop()
            return r == z3.unsat

        def rewriter(g):
            # idx_f(o, elem_f(o, K)) -> K  when [lo, hi) lies inside the list (elements are pairwise distinct: wf)
            reps = []
            for x in core.uninterp_apps(g):
                nm = x.decl().name()
                if nm.startswith("idx(") and x.num_args() == 2:
                    field = nm[4:-1]
                    inner = x.arg(1)
                    if z3.is_app(inner) and inner.num_args() == 2 and inner.decl().name() == field + "[]" and inner.arg(0).eq(x.arg(0)) and inner.arg(1).eq(K):
                        llen = core.list_funcs(field)[0]
                        if valid(z3.And(K >= 0, K < llen(x.arg(0)))):
                            reps.append((x, K))
            if reps:
                g = z3.simplify(z3.substitute(g, *reps))
            return g

        def guard_simplifier(guard):
            if valid(guard):
                return True
            if valid(z3.Not(guard)):
                return False
            return None

        try:
            return sums.make_sum(wrapped, lo, hi, rewriter=rewriter, guard_simplifier=guard_simplifier)
        except Infeasible:
            if not self.feasible(lo_t < hi_t):
                return z3.RealVal(0)  # empty range on this path
            raise

    def register_index(self, k):
        for t in self.index_terms:
            if t.eq(k):
                return
        self.index_terms.append(k)

    # ------------------------------------------------------------------------------------------ truthiness
    def truth(self, v):
        if isinstance(v, OptV):
            if isinstance(v.val, (HeapArr1, HeapArr2)):
                return neg(v.isnone)  # (numpy arrays of more than one element have no truth value; `if x:` on them is used as `is not None`)
            t = self.truth(v.val)
            return conj(neg(v.isnone), t if not isinstance(t, bool) else t)
        if v is None:
            return False
        if isinstance(v, tuple) and v and isinstance(v[0], str) and v[0] == "and" and len(v) == 3 and isinstance(v[2], (ForallV, ExistsV)):
            return v
        if isinstance(v, (bool, int, float, str, list, tuple, dict, set, frozenset, np.generic)):
            return bool(v)
        if is_z3(v):
            if z3.is_bool(v):
                return v
            if z3.is_arith(v):
                return v != 0
            if v.sort() == core.Str:
                return v != str_const("")
            raise Unsupported("truthiness of %s" % v.sort())
        if isinstance(v, ObjV):
            if v.maybe_none:
                return v.ref != NONE
            return True
        if isinstance(v, SymList):
            return self.seq_len(v) > 0
        if isinstance(v, MapSeq):
            return v.n > 0
        if isinstance(v, (ClassV, FuncV, BoundMethod, ModuleV, LambdaV)):
            return True
        if isinstance(v, (ForallV, ExistsV)):
            return v
        if isinstance(v, tuple) and v and v[0] == "and":
            return v
        if isinstance(v, Opaque):
            raise Unsupported("truthiness of opaque value %s" % v.what)
        if isinstance(v, LArr) and concrete_int(v.n) == 1:
            return self.truth(v.get(0))  # numpy: the truth value of a one-element array is that of its element
        if isinstance(v, PyObjV):
            # an object is true unless its class defines __bool__ / __len__
            for special in ("__bool__", "__len__"):
                fi = v.module.resolve_method(v.cls, special)
                if fi is not None:
                    r = self.call_function(fi, [v], {})
                    return self.truth(r) if special == "__bool__" else (to_z3num(r) > 0 if is_z3(r) else r > 0)
            return True
        raise Unsupported("truthiness of %r" % (v,))

    # ------------------------------------------------------------------------------------------ sequences
    def seq_len(self, s):
        s = self.force_opt(s)
        if isinstance(s, SymList):
            return self.heap.list_len(s.field, s.owner.ref)
        if isinstance(s, MapSeq):
            return s.n
        if isinstance(s, (list, tuple, np.ndarray, dict, str, set, frozenset)):
            return len(s)
        if is_arr(s):
            return self.arr_len(s)
        if is_arr2(s):
            return self.arr2_dims(s)[0]  # len() of a 2-D array: its number of rows
        if isinstance(s, range):
            return len(s)
        raise Unsupported("len() of %r" % (s,))

    def seq_elem(self, s, k):
        if isinstance(s, SymList):
            k = to_z3num(k)
            e = self.heap.list_elem(s.field, s.owner.ref, k)
            key = (s.field, s.owner.ref.get_id(), k.get_id())
            if key not in self._seen_elems:
                self._seen_elems.add(key)
                n = self.heap.list_len(s.field, s.owner.ref)
                rng = z3.And(0 <= k, k < n)
                self.facts.append(z3.Implies(rng, z3.And(self.heap.list_idx(s.field, s.owner.ref, e) == k, CLASSES.classset_term(e, s.elem_classes), alloc(e) <= 0, e != NONE)))
                self.facts.append(n >= 0)
            return ObjV(e, s.elem_classes)
        if isinstance(s, MapSeq):
            return s.get(to_z3num(k))
        if is_arr(s):
            return self.arr_get(s, k)
        ck = concrete_int(k)
        if ck is not None and isinstance(s, (list, tuple)):
            return s[ck]
        raise Unsupported("indexing %r with %r" % (s, k))

    # ------------------------------------------------------------------------------------------ arrays
    def arr_len(self, a):
        if isinstance(a, LArr):
            return a.n
        if isinstance(a, MapSeq):
            return a.n
        if isinstance(a, HeapArr1):
            return self.heap.len_a1(a.field, a.owner.ref)
        if isinstance(a, HeapCol):
            nr = self.heap.rows_a2(a.field, a.owner.ref)
            lo, hi = self._clamp(a.lo, a.hi, nr)
            return simp(ite(hi - lo >= 0, hi - lo, 0)) if is_z3(hi - lo) else max(0, hi - lo)
        if isinstance(a, np.ndarray):
            return len(a)
        if isinstance(a, (list, tuple)):
            return len(a)
        raise Unsupported("length of %r" % (a,))

    def _clamp(self, lo, hi, n):
        def norm(v, default):
            if v is None:
                return default
            c = concrete_int(v)
            if c is not None and c < 0:
                return n + c
            return v

        lo = norm(lo, 0)
        hi = norm(hi, n)
        # numpy clamps slice bounds to the array extent
        if concrete_int(hi) is None or concrete_int(n) is None or concrete_int(hi) > concrete_int(n):
            if not (is_z3(hi) and is_z3(n) and hi.eq(n)):
                hi = ite(to_z3num(hi) > to_z3num(n), n, hi)
        return lo, hi

    def arr_reader(self, a):
        """snapshot reader i -> element term (numpy evaluates operands eagerly)"""
        if isinstance(a, LArr):
            return a.get
        if isinstance(a, MapSeq):
            return a.get
        if isinstance(a, HeapArr1):
            h = self.heap.copy()
            return lambda i, h=h, a=a: h.read_a1(a.field, a.owner.ref, to_z3num(i))
        if isinstance(a, HeapCol):
            h = self.heap.copy()
            nr = h.rows_a2(a.field, a.owner.ref)
            lo, hi = self._clamp(a.lo, a.hi, nr)
            return lambda i, h=h, a=a, lo=lo: h.read_a2(a.field, a.owner.ref, simp(to_z3num(i) + lo) if not (isinstance(lo, int) and lo == 0) else to_z3num(i), to_z3num(a.j))
        if isinstance(a, np.ndarray):
            vals = [x.item() if hasattr(x, "item") else x for x in a]
            return self._list_reader(vals)
        if isinstance(a, (list, tuple)):
            return self._list_reader(list(a))
        raise Unsupported("array reader for %r" % (a,))

    def _list_reader(self, vals):
        def get(i):
            c = concrete_int(i)
            if c is not None:
                return vals[c]
            res = vals[-1]
            for j in range(len(vals) - 2, -1, -1):
                res = ite(i == j, vals[j], res)
            return res

        return get

    def arr_get(self, a, i):
        if isinstance(a, HeapArr1):
            return self.heap.read_a1(a.field, a.owner.ref, to_z3num(i))
        return self.arr_reader(a)(i)

    def arr_dtype(self, a):
        if isinstance(a, LArr):
            return a.dtype
        if isinstance(a, np.ndarray):
            return "bool" if a.dtype == bool else ("int" if np.issubdtype(a.dtype, np.integer) else "float")
        return "float"

    def elementwise(self, fn, *operands, dtype="float", node=None):
        """apply fn elementwise over arrays/scalars with numpy broadcasting of length-1 arrays"""
        readers = []
        lens = []
        for o in operands:
            if is_arr(o) or (isinstance(o, (list, tuple)) and not isinstance(o, str)):
                readers.append(self.arr_reader(o))
                lens.append(self.arr_len(o))
            else:
                readers.append(None)
                lens.append(None)
        arr_lens = [l for l in lens if l is not None]
        n = arr_lens[0]
        bcast = [False] * len(operands)
        if len(arr_lens) > 1:
            # result length: the non-1 length; definedness: lengths equal or 1
            cl = [concrete_int(l) for l in arr_lens]
            if all(c is not None for c in cl):
                big = max(cl)
                if any(c not in (1, big) for c in cl):
                    raise Unsupported("shape mismatch %s" % cl)
                n = big
                bcast = [l is not None and concrete_int(l) == 1 and big != 1 for l in lens]
            else:
                # symbolic lengths: equal lengths proved as an obligation unless one is the literal length 1
                ones = [concrete_int(l) == 1 for l in arr_lens]
                nonone = [l for l, o in zip(arr_lens, ones) if not o]
                n = nonone[0] if nonone else 1
                for l in nonone[1:]:
                    if not (is_z3(l) and is_z3(n) and l.eq(n)):
                        self.oblige("defined", "shape-match@L%s" % getattr(node, "lineno", "?"), to_z3num(l) == to_z3num(n), getattr(node, "lineno", None))
                bcast = [l is not None and concrete_int(l) == 1 and bool(nonone) for l in lens]

        def get(i, readers=readers, operands=operands, bcast=bcast):
            args = []
            for r, o, b in zip(readers, operands, bcast):
                if r is None:
                    args.append(o)
                else:
                    args.append(r(0 if b else i))
            return fn(*args)

        cn = concrete_int(n)
        if cn is not None and cn <= 64:
            # numpy evaluates eagerly: do the same when the length is concrete (each element is computed exactly once)
            return LArr(cn, self._list_reader([get(i) for i in range(cn)]), dtype=dtype)
        return LArr(n, get, dtype=dtype)

    # ------------------------------------------------------------------------------------------ scalar arithmetic
    EPS = z3.RealVal("1/9007199254740992")  # 2^-53: unit roundoff of IEEE-754 double

    def fl(self, t):
        """FPSTD mode: the standard model of floating-point rounding, fl(x op y) = (x op y)(1 + d), |d| <= 2^-53 (no overflow /
        underflow).  Integer-sorted results and specification expressions are exact."""
        if self.mode != "FPSTD" or self.spec_mode or not z3.is_real(t):
            return t
        d = fresh("rnd", z3.RealSort())
        self.facts.append(z3.And(-self.EPS <= d, d <= self.EPS))
        return t * (1 + d)

    def _is_inf(self, x):
        return isinstance(x, float) and x in (float("inf"), float("-inf"))

    def _inf_binop(self, op, a, b, node=None):
        """arithmetic with a concrete +-inf operand and a symbolic one: the sign of the symbolic operand is decided on the path"""
        pos = lambda x: x > 0
        if isinstance(op, (ast.Add, ast.Sub)):
            if self._is_inf(a):
                return a
            return b if isinstance(op, ast.Add) else -b
        if isinstance(op, ast.Mult) or (isinstance(op, ast.Div) and self._is_inf(a)):
            inf, z = (a, b) if self._is_inf(a) else (b, a)
            if self.branch(to_real(z) > 0):
                return inf
            if self.branch(to_real(z) < 0):
                return -inf
            self.oblige("defined", "inf-times-zero@L%s" % getattr(node, "lineno", "?"), False, getattr(node, "lineno", None), note="inf*0 or inf/0 is NaN")
            raise Aborted()
        if isinstance(op, ast.Div) and self._is_inf(b):
            return 0.0
        raise Unsupported("operator %s with an infinite operand" % type(op).__name__)

    def num_binop(self, op, a, b, node=None):
        if (self._is_inf(a) and is_z3(b)) or (self._is_inf(b) and is_z3(a)):
            return self._inf_binop(op, a, b, node)
        if not is_z3(a) and not is_z3(b):
            try:
                return self._py_binop(op, a, b)
            except ZeroDivisionError:
                self.oblige("defined", "div-by-zero@L%s" % getattr(node, "lineno", "?"), False, getattr(node, "lineno", None))
                raise Aborted()
        if isinstance(a, (Opaque,)) or isinstance(b, (Opaque,)):
            return Opaque("arith")
        if isinstance(a, str) or isinstance(b, str):
            return Opaque("string-op")
        za, zb = to_z3num(a), to_z3num(b)
        if isinstance(op, ast.Add):
            return self.fl(za + zb if za.sort() == zb.sort() else to_real(za) + to_real(zb))
        if isinstance(op, ast.Sub):
            return self.fl(za - zb if za.sort() == zb.sort() else to_real(za) - to_real(zb))
        if isinstance(op, ast.Mult):
            return self.fl(za * zb if za.sort() == zb.sort() else to_real(za) * to_real(zb))
        if isinstance(op, ast.Div):
            if self.definedness:
                self.oblige("defined", "div-by-zero@L%s" % getattr(node, "lineno", "?"), zb != 0, getattr(node, "lineno", None))
            return self.fl(to_real(za) / to_real(zb))
        if isinstance(op, ast.Pow):
            cb = concrete_int(b) if not isinstance(b, float) else (int(b) if float(b).is_integer() else None)
            if cb is not None and 0 <= cb <= 8:
                res = z3.RealVal(1) if z3.is_real(za) else z3.IntVal(1)
                for _ in range(cb):
                    res = res * za
                return res
            raise Unsupported("power with exponent %r" % (b,))
        if isinstance(op, ast.FloorDiv) and z3.is_int(za) and z3.is_int(zb):
            return za / zb
        if isinstance(op, ast.Mod) and z3.is_int(za) and z3.is_int(zb):
            return za % zb
        raise Unsupported("binary operator %s on %s, %s" % (type(op).__name__, a, b))

    def _py_binop(self, op, a, b):
        import operator

        table = {ast.Add: operator.add, ast.Sub: operator.sub, ast.Mult: operator.mul, ast.Div: operator.truediv, ast.Pow: operator.pow, ast.FloorDiv: operator.floordiv, ast.Mod: operator.mod, ast.BitXor: operator.xor, ast.BitAnd: operator.and_, ast.BitOr: operator.or_, ast.LShift: operator.lshift, ast.RShift: operator.rshift}
        if isinstance(a, Opaque) or isinstance(b, Opaque):
            return Opaque("op")
        if isinstance(op, ast.Mod) and isinstance(a, str):
            try:
                return a % b
            except Exception:
                return Opaque("format")
        return table[type(op)](a, b)

    def binop(self, op, a, b, node=None):
        if isinstance(a, core.SetV) or isinstance(b, core.SetV):
            return Opaque("set expression")
        a, b = self.force_opt(a), self.force_opt(b)
        if isinstance(a, ForallV) or isinstance(b, ForallV):
            raise Unsupported("arithmetic on quantified value")
        if is_arr2(a) or is_arr2(b):
            return self.binop2(op, a, b, node)
        if is_arr(a) or is_arr(b):
            if isinstance(a, np.ndarray) and isinstance(b, np.ndarray) or (isinstance(a, np.ndarray) and is_concrete(b) and not isinstance(b, (list, tuple))) or (isinstance(b, np.ndarray) and is_concrete(a) and not isinstance(a, (list, tuple))):
                return self._py_binop(op, a, b)
            dtype = "float"
            if isinstance(op, (ast.BitAnd, ast.BitOr, ast.BitXor)):
                if self.arr_dtype(a if is_arr(a) else b) == "bool":
                    fn = {ast.BitAnd: lambda x, y: conj(core.to_bool(x), core.to_bool(y)), ast.BitOr: lambda x, y: disj(core.to_bool(x), core.to_bool(y))}.get(type(op))
                    if fn is None:
                        raise Unsupported("xor on boolean arrays")
                    return self.elementwise(fn, a, b, dtype="bool", node=node)
            return self.elementwise(lambda x, y: self.num_binop(op, x, y, node), a, b, dtype=dtype, node=node)
        if isinstance(a, (list, tuple)) and isinstance(b, (list, tuple)) and isinstance(op, ast.Add):
            return a + b
        if isinstance(a, (list, tuple)) and isinstance(op, ast.Mult) and isinstance(b, int):
            return a * b
        if isinstance(a, str) and isinstance(op, (ast.Add, ast.Mod, ast.Mult)):
            if is_concrete(b):
                return self._py_binop(op, a, b)
            if isinstance(op, ast.Mod):
                # "template" % symbolic values: represented by the template itself -- only the emptiness of such strings is
                # meaningful (error messages); their text is never compared by the code under contract
                self.assumptions_log.add("strings formatted from symbolic values are represented by their templates (only their emptiness is used)")
                return a
            return Opaque("string")
        if isinstance(a, (set, frozenset)) and isinstance(b, (set, frozenset)):
            return self._py_binop(op, a, b)
        if is_z3(a) and z3.is_bool(a) or is_z3(b) and z3.is_bool(b):
            a = ite(a, 1, 0) if is_z3(a) and z3.is_bool(a) else a
            b = ite(b, 1, 0) if is_z3(b) and z3.is_bool(b) else b
        return self.num_binop(op, a, b, node)

    # -- 2-D
    def arr2_dims(self, a):
        if isinstance(a, LArr2):
            return a.nr, a.nc
        if isinstance(a, HeapArr2):
            return self.heap.rows_a2(a.field, a.owner.ref), self.heap.cols_a2(a.field, a.owner.ref)
        if isinstance(a, np.ndarray):
            return a.shape
        raise Unsupported("dims of %r" % (a,))

    def arr2_reader(self, a):
        if isinstance(a, LArr2):
            return a.get
        if isinstance(a, HeapArr2):
            h = self.heap.copy()
            return lambda i, j: h.read_a2(a.field, a.owner.ref, to_z3num(i), to_z3num(j))
        if isinstance(a, np.ndarray):
            rows = [self._list_reader([x.item() if hasattr(x, "item") else x for x in row]) for row in a]

            def get(i, j):
                ci = concrete_int(i)
                if ci is not None:
                    return rows[ci](j)
                res = rows[-1](j)
                for r in range(len(rows) - 2, -1, -1):
                    res = ite(i == r, rows[r](j), res)
                return res

            return get
        raise Unsupported("2-D reader of %r" % (a,))

    def table2(self, rows):
        """2-D local array of concrete shape from a list of rows of terms"""
        nr = len(rows)
        nc = len(rows[0]) if rows else 0
        readers = [self._list_reader(list(r)) for r in rows]

        def get(i, j):
            ci = concrete_int(i)
            if ci is not None:
                return readers[ci](j)
            res = readers[-1](j)
            for r in range(nr - 2, -1, -1):
                res = ite(to_z3num(i) == r, readers[r](j), res)
            return res

        return LArr2(nr, nc, get)

    def binop2(self, op, a, b, node=None):
        if isinstance(a, np.ndarray) and isinstance(b, np.ndarray) and a.dtype != object and b.dtype != object:
            return self._py_binop(op, a, b)
        if isinstance(a, np.ndarray) and is_concrete(b) and not is_arr(b) and not isinstance(b, (list, tuple)):
            return self._py_binop(op, a, b)
        # (r x c) op (c,)  -> broadcast over rows;  (r x 1) op (1 x c) -> outer;  (r x c) op scalar
        def dims(x):
            if is_arr2(x):
                return self.arr2_dims(x)
            if is_arr(x):
                return (1, self.arr_len(x))
            return None

        da, db = dims(a), dims(b)

        def rd(x):
            if is_arr2(x):
                return self.arr2_reader(x)
            if is_arr(x):
                r = self.arr_reader(x)
                return lambda i, j: r(j)
            return lambda i, j: x

        ra, rb = rd(a), rd(b)

        def pick(x, y):
            if x is None:
                return y
            if y is None:
                return x
            cx, cy = concrete_int(x), concrete_int(y)
            if cx == 1:
                return y
            if cy == 1:
                return x
            return x

        nr = pick(da[0] if da else None, db[0] if db else None)
        nc = pick(da[1] if da else None, db[1] if db else None)

        def idx(d, i, which):
            if d is None:
                return i
            return 0 if concrete_int(d[which]) == 1 and concrete_int((nr, nc)[which]) != 1 else i

        def get(i, j):
            return self.num_binop(op, ra(idx(da, i, 0), idx(da, j, 1)), rb(idx(db, i, 0), idx(db, j, 1)), node)

        return LArr2(nr, nc, get)

    def unop(self, op, v, node=None):
        if isinstance(op, ast.Not):
            t = self.truth(v)
            if isinstance(t, ForallV):
                return ExistsV(t.n, lambda k, t=t: neg(core.to_bool(t.body(k))))
            if isinstance(t, ExistsV):
                return ForallV(t.n, lambda k, t=t: neg(core.to_bool(t.body(k))))
            return neg(t) if not isinstance(t, bool) else (not t)
        if isinstance(op, ast.USub):
            if is_arr(v):
                if isinstance(v, np.ndarray):
                    return -v
                return self.elementwise(lambda x: self.unop(op, x), v)
            if is_z3(v):
                return -v
            return -v
        if isinstance(op, ast.UAdd):
            return v
        if isinstance(op, ast.Invert):
            if is_arr(v):
                if isinstance(v, np.ndarray):
                    return ~v
                return self.elementwise(lambda x: neg(core.to_bool(x)), v, dtype="bool")
            if is_z3(v) and z3.is_bool(v):
                return z3.Not(v)
            return ~v
        raise Unsupported("unary %s" % type(op).__name__)

    def compare(self, op, a, b, node=None):
        if isinstance(a, core.SetV) and isinstance(b, core.SetV):
            self.assumptions_log.add("set comparison <= is the subset relation on abstract sets")
            if isinstance(op, ast.LtE):
                return core.subset_of(a.term, b.term)
            if isinstance(op, ast.GtE):
                return core.subset_of(b.term, a.term)
            raise Unsupported("comparison %s on abstract sets" % type(op).__name__)
        if (isinstance(a, LArr2) or isinstance(b, LArr2)) and not isinstance(op, (ast.In, ast.NotIn, ast.Is, ast.IsNot)):
            # element-wise comparison of a 2-D local array of concrete shape with a scalar (or an array of the same shape)
            t = a if isinstance(a, LArr2) else b
            nr, nc = concrete_int(t.nr), concrete_int(t.nc)
            if nr is None or nc is None:
                raise Unsupported("comparison of a 2-D array of symbolic shape")
            ga = a.get if isinstance(a, LArr2) else (lambda i, j: a)
            gb = b.get if isinstance(b, LArr2) else (lambda i, j: b)
            if (isinstance(a, LArr2) and (concrete_int(a.nr), concrete_int(a.nc)) != (nr, nc)) or (isinstance(b, LArr2) and (concrete_int(b.nr), concrete_int(b.nc)) != (nr, nc)):
                raise Unsupported("comparison of 2-D arrays of different shapes")
            if is_arr(a) or is_arr(b) or is_arr2(a) and not isinstance(a, LArr2) or is_arr2(b) and not isinstance(b, LArr2):
                raise Unsupported("comparison of a 2-D array with another array kind")
            return self.table2([[self._compare(op, ga(i, j), gb(i, j), node) for j in range(nc)] for i in range(nr)])
        return self._compare(op, a, b, node)

    def _compare(self, op, a, b, node=None):
        if isinstance(op, (ast.Eq, ast.NotEq)) and (isinstance(a, OptV) or isinstance(b, OptV)) and not (isinstance(a, OptV) and isinstance(b, OptV)):
            # x == y with x optional: False when x is None (y is never None here), else the comparison of the contents
            o, other = (a, b) if isinstance(a, OptV) else (b, a)
            if other is None:
                r = o.isnone
            else:
                inner = self.compare(ast.Eq(), o.val, other, node)
                r = conj(neg(o.isnone), core.to_bool(inner) if not isinstance(inner, bool) else inner)
            return r if isinstance(op, ast.Eq) else (neg(r) if not isinstance(r, bool) else not r)
        if not isinstance(op, (ast.Is, ast.IsNot)):
            a, b = self.force_opt(a), self.force_opt(b)
        if isinstance(op, (ast.Is, ast.IsNot)):
            r = self._identical(a, b)
            return r if isinstance(op, ast.Is) else (neg(r) if not isinstance(r, bool) else not r)
        if isinstance(op, (ast.In, ast.NotIn)):
            r = self._contains(b, a)
            return r if isinstance(op, ast.In) else (neg(r) if not isinstance(r, bool) else not r)
        if is_arr(a) or is_arr(b):
            if isinstance(a, np.ndarray) and is_concrete(b) or isinstance(b, np.ndarray) and is_concrete(a):
                return self._py_compare(op, a, b)
            return self.elementwise(lambda x, y: self.compare(op, x, y, node), a, b, dtype="bool", node=node)
        if isinstance(a, ObjV) or isinstance(b, ObjV):
            if isinstance(op, (ast.Eq, ast.NotEq)):
                r = self._identical(a, b)
                return r if isinstance(op, ast.Eq) else (neg(r) if not isinstance(r, bool) else not r)
            raise Unsupported("ordering comparison on objects")
        if not is_z3(a) and not is_z3(b):
            if isinstance(a, Opaque) or isinstance(b, Opaque):
                raise Unsupported("comparison of opaque values")
            return self._py_compare(op, a, b)
        # symbolic
        if isinstance(a, str) or isinstance(b, str) or (is_z3(a) and a.sort() == core.Str) or (is_z3(b) and b.sort() == core.Str):
            za = str_const(a) if isinstance(a, str) else a
            zb = str_const(b) if isinstance(b, str) else b
            if not (is_z3(za) and is_z3(zb) and za.sort() == core.Str and zb.sort() == core.Str):
                # comparison between a string and a non-string: False for ==, True for !=
                if isinstance(op, ast.Eq):
                    return False
                if isinstance(op, ast.NotEq):
                    return True
                raise Unsupported("ordering of string and non-string")
            if isinstance(op, ast.Eq):
                return za == zb
            if isinstance(op, ast.NotEq):
                return za != zb
            raise Unsupported("ordering comparison on symbolic strings")
        if a is None or b is None:
            if isinstance(op, ast.Eq):
                return False
            if isinstance(op, ast.NotEq):
                return True
        za, zb = to_z3num(a) if not (is_z3(a) and z3.is_bool(a)) else a, to_z3num(b) if not (is_z3(b) and z3.is_bool(b)) else b
        if z3.is_bool(za) != z3.is_bool(zb):
            za = ite(za, 1, 0) if z3.is_bool(za) else za
            zb = ite(zb, 1, 0) if z3.is_bool(zb) else zb
            za, zb = to_z3num(za), to_z3num(zb)
        if z3.is_arith(za) and z3.is_arith(zb) and za.sort() != zb.sort():
            za, zb = to_real(za), to_real(zb)
        if isinstance(op, ast.Eq):
            return za == zb
        if isinstance(op, ast.NotEq):
            return za != zb
        if isinstance(op, ast.Lt):
            return za < zb
        if isinstance(op, ast.LtE):
            return za <= zb
        if isinstance(op, ast.Gt):
            return za > zb
        if isinstance(op, ast.GtE):
            return za >= zb
        raise Unsupported("comparison %s" % type(op).__name__)

    def _py_compare(self, op, a, b):
        import operator

        table = {ast.Eq: operator.eq, ast.NotEq: operator.ne, ast.Lt: operator.lt, ast.LtE: operator.le, ast.Gt: operator.gt, ast.GtE: operator.ge}
        return table[type(op)](a, b)

    def force_opt(self, v):
        """an optional value used where its content matters: decide presence on this path"""
        if isinstance(v, OptV):
            if self.branch(v.isnone):
                return None
            return v.val
        return v

    def _identical(self, a, b):
        if isinstance(a, OptV) and b is None:
            return a.isnone
        if isinstance(b, OptV) and a is None:
            return b.isnone
        a, b = self.force_opt(a), self.force_opt(b)
        if a is None and b is None:
            return True
        if isinstance(a, ObjV) and b is None:
            return (a.ref == NONE) if a.maybe_none else False
        if isinstance(b, ObjV) and a is None:
            return (b.ref == NONE) if b.maybe_none else False
        if isinstance(a, ObjV) and isinstance(b, ObjV):
            if a.ref.eq(b.ref):
                return True
            if not (a.classes & b.classes) and not (a.maybe_none and b.maybe_none):
                return False
            return a.ref == b.ref
        if isinstance(a, ObjV) or isinstance(b, ObjV):
            return False
        if is_z3(a) or is_z3(b):
            if a is None or b is None:
                return False
            raise Unsupported("identity comparison on symbolic scalars")
        if isinstance(a, (LArr, LArr2)) or isinstance(b, (LArr, LArr2)):
            return a is b
        return a is b

    def _contains(self, container, item):
        if isinstance(container, (list, tuple, set, frozenset, dict)) or (isinstance(container, str) and isinstance(item, str)):
            if is_concrete(item) and not isinstance(item, Opaque):
                if isinstance(container, (list, tuple)) and not is_concrete(container):
                    pass
                else:
                    return item in container
            keys = list(container.keys()) if isinstance(container, dict) else list(container)
            return disj(*[self._eqv(item, k) for k in keys])
        if isinstance(container, SymList) and isinstance(item, ObjV):
            return self.heap.list_member(container.field, container.owner.ref, item.ref)
        if isinstance(container, np.ndarray) and container.ndim == 1 and container.dtype.kind in "fiub":
            # a concrete numpy vector: x in a is any(a == x)
            return self._contains([v.item() for v in container], item)
        if isinstance(container, LArr) and concrete_int(container.n) is not None:
            return disj(*[self._eqv(item, container.get(i)) for i in range(concrete_int(container.n))])
        raise Unsupported("membership test in %r" % (container,))

    def _eqv(self, a, b):
        r = self.compare(ast.Eq(), a, b)
        return r

    # ------------------------------------------------------------------------------------------ heap access
    def get_attr(self, v, attr, node=None):
        v = self.force_opt(v)
        if isinstance(v, ObjV):
            return self.obj_attr(v, attr, node)
        if isinstance(v, PyObjV):
            if attr == "__dict__":
                return v.fields  # the attribute dictionary itself (updates through it are updates of the object)
            if attr in v.fields:
                return v.fields[attr]
            fi = v.module.resolve_method(v.cls, attr)
            if fi is None:
                if self.definedness and not self.caught_here("AttributeError"):
                    self.oblige("defined", "attribute-exists:%s@L%s" % (attr, getattr(node, "lineno", "?")), False, getattr(node, "lineno", None), note="AttributeError: %s has no attribute %s" % (v.cls, attr))
                raise _Raise("AttributeError", node)
            if fi.is_property:
                return self.call_function(fi, [v], {}, node)
            return FuncBound(v, fi)
        if isinstance(v, ModuleV):
            return self.module_attr(v, attr)
        if isinstance(v, ClassV):
            fi = v.module.resolve_method(v.name, attr) if v.module else None
            if fi is not None:
                return BoundMethod(v, attr) if fi.is_classmethod else FuncV(fi)
            if attr == "__name__":
                return v.name
            if attr == "__new__" and v.module is not None:
                # Cls.__new__(Cls): an object of concrete shape without any attribute yet
                def _new(it, cls, *a, **k):
                    if not isinstance(cls, ClassV) or cls.module is None:
                        raise Unsupported("__new__ of %r" % (cls,))
                    return PyObjV(cls.name, cls.module, {})

                return BuiltinV("%s.__new__" % v.name, _new)
            raise Unsupported("class attribute %s.%s" % (v.name, attr))
        if is_arr(v) or is_arr2(v):
            if attr == "shape":
                if is_arr2(v):
                    return tuple(self.arr2_dims(v))
                return (self.arr_len(v),)
            if attr == "size":
                if is_arr2(v):
                    d = self.arr2_dims(v)
                    return d[0] * d[1]
                return self.arr_len(v)
            if attr == "T" and is_arr2(v):
                r = self.arr2_reader(v)
                d = self.arr2_dims(v)
                tv = LArr2(d[1], d[0], lambda i, j: r(j, i))
                if isinstance(v, LArr2):
                    tv.transpose_of = v  # numpy's .T is a VIEW: an in-place update of it changes the array it was taken from
                return tv
            if isinstance(v, np.ndarray):
                x = getattr(v, attr)
                return ArrMethod(v, attr) if callable(x) else x
            return ArrMethod(v, attr)
        if isinstance(v, (list, dict, set, str, tuple, frozenset)):
            return ArrMethod(v, attr)
        if isinstance(v, BuiltinV) and attr == "fromkeys" and v.name in ("dict", "sc.odict"):
            def fromkeys(it, keys, value=None):
                ks = list(keys.keys()) if isinstance(keys, dict) else it.iterable(keys)
                if not isinstance(ks, list) or not all(is_concrete(k) for k in ks):
                    raise Unsupported("dict.fromkeys over symbolic keys")
                return {k: value for k in ks}

            return BuiltinV("dict.fromkeys", fromkeys)
        if isinstance(v, Opaque):
            return Opaque(v.what + "." + attr)
        if v is None:
            self.oblige("defined", "attr-of-None.%s@L%s" % (attr, getattr(node, "lineno", "?")), False, getattr(node, "lineno", None))
            raise Aborted()
        if hasattr(v, "__dict__") or hasattr(v, attr):
            try:
                return getattr(v, attr)
            except AttributeError:
                pass
        raise Unsupported("attribute %s of %r" % (attr, v))

    def obj_attr(self, o, attr, node=None):
        if o.maybe_none:
            if self.definedness:
                self.oblige("defined", "attr-of-None.%s@L%s" % (attr, getattr(node, "lineno", "?")), o.ref != NONE, getattr(node, "lineno", None))
                self.assume(o.ref != NONE)
            o = ObjV(o.ref, o.classes, False)
        groups = self._attr_groups(o, attr, node)
        if len(groups) == 1:
            return self._attr_in_group(o, attr, groups[0], node)
        kinds = {g[0] for g in groups}
        if kinds == {"meth"}:
            return BoundMethod(o, attr)
        vals = []
        for g in groups:
            cond = CLASSES.classset_term(o.ref, g[2])
            self.pc.append(cond)
            try:
                v = self._attr_in_group(ObjV(o.ref, g[2]), attr, g, node)
            finally:
                self.pc.pop()
            vals.append((cond, v))
        return self.merge_values(vals, "attribute %s" % attr)

    def _attr_groups(self, o, attr, node=None):
        """partition the possible classes of o by what `attr` is there: ('prop'|'meth', FuncInfo, classes) or ('field', kind, classes);
        groups whose typeof condition is infeasible on the current path are dropped"""
        part = {}
        for c in sorted(o.classes):
            fi = self.class_home(c).resolve_method(c, attr) if self.class_home(c) is not None else None
            if fi is not None:
                key = ("prop" if fi.is_property else "meth", fi)
            else:
                k = None
                for anc in self._mro(c):
                    if anc in self.schema and attr in self.schema[anc]:
                        k = self.schema[anc][attr]
                        break
                key = ("field", k)
            part.setdefault(key, []).append(c)
        groups = [(k[0], k[1], frozenset(cs)) for k, cs in part.items()]
        if len(groups) > 1:
            groups = [g for g in groups if self.feasible(CLASSES.classset_term(o.ref, g[2]))]
            if not groups:
                raise Infeasible()
        good = [g for g in groups if not (g[0] == "field" and g[1] is None)]
        if not self.definedness:
            # specification context: classes without the attribute are outside the clause's domain (the contract states
            # the class restriction separately); nothing is assumed and nothing is obliged here
            if not good:
                raise Unsupported("attribute %s does not exist for %s" % (attr, sorted(o.classes)))
            return good
        for g in groups:
            if g[0] == "field" and g[1] is None:
                self.oblige("defined", "attribute-exists:%s@L%s" % (attr, getattr(node, "lineno", "?")), neg(CLASSES.classset_term(o.ref, g[2])), getattr(node, "lineno", None), note="AttributeError: %s has no attribute %s" % (sorted(g[2]), attr))
        if not good:
            raise _Raise("AttributeError", node)
        if len(good) < len(groups):
            self.assume(z3.Or([CLASSES.classset_term(o.ref, g[2]) for g in good]))
        return good

    def _attr_in_group(self, o, attr, g, node=None):
        what, x, classes = g
        o = ObjV(o.ref, classes)
        if what == "prop":
            return self.call_function(x, [o], {}, node)
        if what == "meth":
            return BoundMethod(o, attr)
        return self.read_field(o, attr, x)

    def merge_values(self, vals, what=""):
        """merge values computed under mutually exclusive conditions"""
        vs = [v for _, v in vals]
        if all(is_z3(v) or (isinstance(v, (int, float)) and not isinstance(v, bool)) for v in vs):
            res = vs[-1]
            for c, v in reversed(vals[:-1]):
                res = ite(c, v, res)
            return res
        if all(is_arr(v) for v in vs):
            readers = [self.arr_reader(v) for v in vs]
            lens = [self.arr_len(v) for v in vs]
            n = lens[-1]
            for (c, _), l in zip(reversed(vals[:-1]), reversed(lens[:-1])):
                n = ite(c, l, n)

            def get(i, readers=readers, vals=vals):
                res = readers[-1](i)
                for (c, _), r in zip(reversed(vals[:-1]), reversed(readers[:-1])):
                    res = ite(c, r(i), res)
                return res

            return LArr(n, get, fresh_alloc=False, readonly=True)
        if all(isinstance(v, ObjV) for v in vs):
            res = vs[-1].ref
            classes = set(vs[-1].classes)
            mn = vs[-1].maybe_none
            for c, v in reversed(vals[:-1]):
                res = ite(c, v.ref, res)
                classes |= v.classes
                mn = mn or v.maybe_none
            return ObjV(res, classes, mn)
        if all(v is None for v in vs):
            return None
        # fall back: fork
        c = self.chooser.choose(len(vals))
        cond, v = vals[c]
        if not self.feasible(cond):
            raise Infeasible()
        self.pc.append(cond)
        return v

    def read_field(self, o, attr, kind):
        h = self.heap
        fa = self.fq(o, attr)
        if kind in ("real", "int", "bool", "str"):
            return h.read_scal(fa, kind, o.ref)
        if kind.startswith("ref"):
            maybe = kind.startswith("ref?")
            cls = kind.split(":", 1)[1]
            r = h.read_scal(fa, "ref", o.ref)
            classes = self._expand(cls.split("|"))
            prev = core.REF_FIELD_CLASSES.get("%s.%s:ref" % (h.tag, fa))
            core.REF_FIELD_CLASSES["%s.%s:ref" % (h.tag, fa)] = (frozenset(classes | (prev[0] if prev else frozenset())), maybe or (prev[1] if prev else False))
            key = ("ref", attr, r.get_id())
            if key not in self._seen_elems:
                self._seen_elems.add(key)
                cs = CLASSES.classset_term(r, classes)
                self.facts.append(z3.Or(r == NONE, cs) if maybe else z3.And(r != NONE, cs))
                if alloc not in ():
                    pass
            return ObjV(r, classes, maybe)
        if kind.startswith("list:"):
            cls = kind.split(":", 1)[1]
            classes = self._expand(cls.split("|"))
            core.LIST_ELEM_CLASSES[attr] = frozenset(core.LIST_ELEM_CLASSES.get(attr, frozenset()) | classes)
            return SymList(o, attr, classes, None)
        if kind == "arr1":
            return HeapArr1(o, fa)
        if kind == "arr2":
            return HeapArr2(o, fa)
        if kind == "arr1?":
            isnone = h.read_scal(fa + "?none", "bool", o.ref)
            return OptV(isnone, HeapArr1(o, fa))
        if kind in ("real?", "int?", "str?"):
            isnone = h.read_scal(fa + "?none", "bool", o.ref)
            return OptV(isnone, h.read_scal(fa, kind[:-1], o.ref))
        if kind == "opaque":
            return Opaque("%s.%s" % (o.ref, attr))
        raise Unsupported("field kind %s" % kind)

    def write_field(self, o, attr, val, node=None):
        if o.maybe_none:
            self.oblige("defined", "attr-of-None.%s@L%s" % (attr, getattr(node, "lineno", "?")), o.ref != NONE, getattr(node, "lineno", None))
            self.assume(o.ref != NONE)
        # property setter?
        impls = self._resolve(o, attr + ".setter")
        if impls is not None and all(v is not None for v in impls.values()):
            fi = self._dispatch(o, attr + ".setter", impls)
            from . import lib

            lib.call_with_contract(self, fi, o, [o, val], {}, node)
            return
        groups = [g for g in self._attr_groups(o, attr, node) if g[0] == "field"]
        if len(groups) != 1:
            g = groups[self.chooser.choose(len(groups))]
            cond = CLASSES.classset_term(o.ref, g[2])
            if not self.feasible(cond):
                raise Infeasible()
            self.pc.append(cond)
        else:
            g = groups[0]
        kind = g[1]
        h = self.heap
        fa = self.fq(ObjV(o.ref, g[2]), attr)
        self._log_write(("scal", attr, kind))
        if kind in ("real", "int", "bool", "str"):
            if isinstance(val, str):
                val = str_const(val)
            elif isinstance(val, bool):
                val = z3.BoolVal(val)
            elif kind == "real":
                val = to_real(val)
            elif kind == "int":
                val = to_z3num(val)
            h.write_scal(fa, kind, o.ref, val)
            return
        if kind.startswith("ref"):
            if val is None:
                if not kind.startswith("ref?"):
                    raise Unsupported("None stored in non-optional field %s" % attr)
                h.write_scal(fa, "ref", o.ref, NONE)
            elif isinstance(val, ObjV):
                h.write_scal(fa, "ref", o.ref, val.ref)
            else:
                raise Unsupported("non-object stored in field %s" % attr)
            return
        if kind in ("arr1", "arr1?"):
            if val is None and kind == "arr1?":
                h.write_scal(fa + "?none", "bool", o.ref, z3.BoolVal(True))
                return
            if is_arr(val):
                rd = self.arr_reader(val)
                n = self.arr_len(val)
                h.set_a1(fa, o.ref, to_z3num(n), lambda j: to_real(rd(j)))
                if kind == "arr1?":
                    h.write_scal(fa + "?none", "bool", o.ref, z3.BoolVal(False))
                return
            raise Unsupported("non-array stored in array field %s" % attr)
        if kind == "arr2":
            if is_arr2(val):
                rd = self.arr2_reader(val)
                nr, nc = self.arr2_dims(val)
                h.set_a2(fa, o.ref, to_z3num(nr), to_z3num(nc), lambda i, j: to_real(rd(i, j)))
                return
            raise Unsupported("non-2-D value stored in field %s" % attr)
        if kind in ("real?", "int?", "str?"):
            if val is None:
                h.write_scal(fa + "?none", "bool", o.ref, z3.BoolVal(True))
            else:
                h.write_scal(fa + "?none", "bool", o.ref, z3.BoolVal(False))
                if kind == "str?":
                    val = str_const(val) if isinstance(val, str) else val
                elif kind == "real?":
                    val = to_real(val)
                else:
                    val = to_z3num(val)
                h.write_scal(fa, kind[:-1], o.ref, val)
            return
        if kind == "opaque":
            return
        raise Unsupported("write to field %s of kind %s" % (attr, kind))

    def fq(self, o, attr):
        """heap map name of a field: objects of different families (FAMILIES of the schema: Compartment, Link, Parameter, ...)
        are never the same object, so their fields live in separate maps (no aliasing case analysis between them)"""
        fams = getattr(self, "families", None)
        if not fams:
            return attr
        found = set()
        for c in o.classes:
            f = None
            for fam in fams:
                if CLASSES.is_subclass(c, fam):
                    f = fam
                    break
            found.add(f)
        if len(found) > 1:
            # one heap map per family: an object that may belong to several families must be narrowed first (dispatch on its
            # class, or one contract per family) -- reading a map of its own would silently decouple it from the real fields
            raise Unsupported("field %s of an object whose classes %s span several families" % (attr, sorted(o.classes)))
        if None in found:
            return attr
        return "%s.%s" % (found.pop(), attr)

    def _log_write(self, what):
        if self.write_log is not None:
            self.write_log.append(what)

    def _resolve(self, o, name):
        """class -> FuncInfo|None for attribute `name` over the possible classes of o; None if no class has it"""
        impls = {}
        anyhit = False
        for c in o.classes:
            fi = self.class_home(c).resolve_method(c, name) if self.class_home(c) is not None else None
            impls[c] = fi
            anyhit = anyhit or fi is not None
        return impls if anyhit else None

    def _dispatch(self, o, name, impls):
        groups = {}
        for c, fi in impls.items():
            groups.setdefault(fi, []).append(c)
        fis = sorted(groups, key=lambda f: f.qualname if f else "")
        if len(fis) > 1:
            fis = [f for f in fis if self.feasible(CLASSES.classset_term(o.ref, groups[f]))]
            if not fis:
                raise Infeasible()
        if len(fis) == 1:
            return fis[0]
        # dynamic dispatch: one alternative per implementation, constrained by typeof
        feas = []
        for fi in fis:
            cond = CLASSES.classset_term(o.ref, groups[fi]) if len(groups[fi]) else z3.BoolVal(False)
            feas.append((fi, cond))
        c = self.chooser.choose(len(feas))
        fi, cond = feas[c]
        if not self.feasible(cond):
            raise Infeasible()
        self.pc.append(cond)
        o.classes  # (ObjV is immutable; refinement is in the path condition)
        return fi

    def call_merged(self, o, name, impls, args, kwargs, node=None):
        """call a side-effect-free method on an object of several possible classes: every feasible implementation is
        evaluated under its typeof condition and the results are merged (no path fork)"""
        groups = {}
        for c, fi in impls.items():
            groups.setdefault(fi, []).append(c)
        fis = sorted(groups, key=lambda f: f.qualname if f else "")
        if len(fis) > 1:
            fis = [f for f in fis if self.feasible(CLASSES.classset_term(o.ref, groups[f]))]
            if not fis:
                raise Infeasible()
        if len(fis) == 1:
            return self.call_function(fis[0], [ObjV(o.ref, groups[fis[0]])] + list(args), kwargs, node)
        vals = []
        for fi in fis:
            cond = CLASSES.classset_term(o.ref, groups[fi])
            n_pc = len(self.pc)
            self.pc.append(cond)
            touched = set(self.heap.touched)
            try:
                v = self.call_function(fi, [ObjV(o.ref, groups[fi])] + list(args), kwargs, node)
            finally:
                del self.pc[n_pc:]
            if self.heap.touched != touched:
                raise Unsupported("method %s writes to the heap: it cannot be evaluated by merging" % fi.qualname)
            vals.append((cond, v))
        return self.merge_values(vals, "call %s" % name)

    def module_attr(self, m, attr):
        from . import lib

        return lib.module_attr(self, m, attr)

    # ------------------------------------------------------------------------------------------ subscripts
    def subscript_load(self, v, idx, node=None):
        v = self.force_opt(v)
        if isinstance(v, Opaque):
            return Opaque(v.what + "[]")
        if isinstance(v, ObjV):
            impls = self._resolve(v, "__getitem__")
            if impls is None:
                raise Unsupported("object %r is not subscriptable" % v)
            return self.call_merged(v, "__getitem__", impls, [idx], {}, node)
        if isinstance(v, PyObjV):
            fi = v.module.resolve_method(v.cls, "__getitem__")
            if fi is None:
                raise Unsupported("object of class %s is not subscriptable" % v.cls)
            return self.call_function(fi, [v, idx], {}, node)
        if isinstance(v, dict):
            if is_concrete(idx):
                if idx not in v:
                    if self.caught_here("KeyError") and not self.spec_mode:
                        raise _Raise("KeyError", node)  # handled by the code itself, or an outcome the contract names
                    self.oblige("defined", "KeyError@L%s" % getattr(node, "lineno", "?"), False, getattr(node, "lineno", None))
                    raise Aborted()
                return v[idx]
            raise Unsupported("dict lookup with symbolic key")
        if isinstance(v, HeapArr2) or isinstance(v, LArr2) or (isinstance(v, np.ndarray) and v.ndim == 2):
            return self._sub2_load(v, idx, node)
        if isinstance(idx, slice):
            return self._slice_load(v, idx)
        if isinstance(idx, np.ndarray) and idx.dtype == bool and idx.ndim == 1 and is_arr(v):
            # concrete mask: the selected cells, in order
            n = concrete_int(self.arr_len(v))
            if n != len(idx):
                raise Unsupported("boolean-mask load with a mask of a different length")
            if isinstance(v, np.ndarray):
                return v[idx]
            rd = self.arr_reader(v)
            sel = [rd(i) for i in range(n) if idx[i]]
            return LArr(len(sel), self._list_reader(sel))
        if is_arr(idx) and self.arr_dtype(idx) == "bool" and is_arr(v) and concrete_int(self.arr_len(idx)) is not None and concrete_int(self.arr_len(idx)) <= 4:
            # symbolic mask of small concrete length: one path per feasible mask value, then the concrete-mask case
            n = concrete_int(self.arr_len(idx))
            rd = self.arr_reader(idx)
            mask = np.array([bool(self.branch(core.to_bool(rd(i)))) for i in range(n)], dtype=bool)
            return self.subscript_load(v, mask, node)
        if is_arr(idx) and self.arr_dtype(idx) == "bool":
            raise Unsupported("boolean-mask load")
        if isinstance(idx, list) and len(idx) == 1 and is_arr(v):
            x = self.arr_get(v, idx[0])
            return LArr(1, lambda i, x=x: x)
        if isinstance(v, (list, tuple, str)) and concrete_int(idx) is not None:
            c = concrete_int(idx)
            if not (-len(v) <= c < len(v)):
                self.oblige("defined", "IndexError@L%s" % getattr(node, "lineno", "?"), False, getattr(node, "lineno", None))
                raise Aborted()
            return v[c]
        if isinstance(v, np.ndarray) and is_concrete(idx):
            return v[idx]
        if isinstance(v, (SymList, MapSeq)) or is_arr(v) or isinstance(v, (list, tuple)):
            n = self.seq_len(v)
            c = concrete_int(idx)
            if c is not None and c < 0:
                idx = n + c
            if self.definedness and not (concrete_int(idx) is not None and concrete_int(n) is not None and 0 <= concrete_int(idx) < concrete_int(n)):
                self.oblige("defined", "index-in-range@L%s" % getattr(node, "lineno", "?"), z3.And(to_z3num(idx) >= 0, to_z3num(idx) < to_z3num(n)), getattr(node, "lineno", None))
            return self.seq_elem(v, idx)
        raise Unsupported("subscript of %r" % (v,))

    def _slice_load(self, v, sl):
        if sl.step is not None:
            raise Unsupported("slice step")
        if isinstance(v, (list, tuple, np.ndarray, str)) and all(x is None or concrete_int(x) is not None for x in (sl.start, sl.stop)):
            return v[slice(None if sl.start is None else concrete_int(sl.start), None if sl.stop is None else concrete_int(sl.stop))]
        if is_arr(v):
            n = self.arr_len(v)
            lo, hi = self._clamp(sl.start, sl.stop, n)
            rd = self.arr_reader(v)
            ln = simp(to_z3num(hi) - to_z3num(lo)) if (is_z3(hi) or is_z3(lo)) else hi - lo
            return LArr(ln, lambda i, rd=rd, lo=lo: rd(simp(to_z3num(i) + lo) if not (isinstance(lo, int) and lo == 0) else i), dtype=self.arr_dtype(v))
        raise Unsupported("slice of %r" % (v,))

    def _sub2_load(self, v, idx, node=None):
        if not isinstance(idx, tuple):
            if isinstance(v, np.ndarray) and is_concrete(idx):
                return v[idx]
            if isinstance(v, LArr2) and not isinstance(idx, slice) and not is_arr(idx) and concrete_int(v.nc) is not None:
                # a[i]: row i as a 1-D array
                nr = v.nr
                if self.definedness and concrete_int(idx) is None:
                    self.oblige("defined", "row-in-range@L%s" % getattr(node, "lineno", "?"), z3.And(to_z3num(idx) >= 0, to_z3num(idx) < to_z3num(nr)), getattr(node, "lineno", None))
                return LArr(v.nc, lambda c, rd=v.get, i=idx: rd(i, c))
            raise Unsupported("row indexing of 2-D array")
        i, j = idx
        if isinstance(v, np.ndarray) and is_concrete(i) and is_concrete(j):
            return v[i, j]
        if isinstance(v, HeapArr2):
            if isinstance(i, slice):
                if isinstance(j, slice):
                    raise Unsupported("2-D slice of heap array")
                return HeapCol(v.owner, v.field, j, i.start, i.stop)
            nr = self.heap.rows_a2(v.field, v.owner.ref)
            ci = concrete_int(i)
            if ci is not None and ci < 0:
                i = nr + ci
            if is_arr(j) or isinstance(j, slice):
                raise Unsupported("row slice of heap array")
            if self.definedness:
                self.oblige("defined", "row-in-range@L%s" % getattr(node, "lineno", "?"), z3.And(to_z3num(i) >= 0, to_z3num(i) < nr), getattr(node, "lineno", None))
            return self.heap.read_a2(v.field, v.owner.ref, to_z3num(i), to_z3num(j))
        rd = self.arr2_reader(v)
        nr, nc = self.arr2_dims(v)
        if isinstance(i, slice) and not isinstance(j, slice):
            lo, hi = self._clamp(i.start, i.stop, nr)
            return LArr(hi - lo, lambda r, rd=rd, j=j, lo=lo: rd(r + lo, j))
        if isinstance(j, slice) and not isinstance(i, slice):
            lo, hi = self._clamp(j.start, j.stop, nc)
            return LArr(hi - lo, lambda c, rd=rd, i=i, lo=lo: rd(i, c + lo))
        if not isinstance(i, slice) and not isinstance(j, slice):
            return rd(i, j)
        raise Unsupported("2-D slicing")

    def subscript_store(self, v, idx, val, node=None):
        v = self.force_opt(v)
        if isinstance(v, ObjV):
            impls = self._resolve(v, "__setitem__")
            if impls is None:
                raise Unsupported("object %r does not support item assignment" % v)
            fi = self._dispatch(v, "__setitem__", impls)
            self.call_function(fi, [v, idx, val], {}, node)
            return
        if isinstance(v, PyObjV):
            fi = v.module.resolve_method(v.cls, "__setitem__")
            if fi is None:
                raise Unsupported("object of class %s does not support item assignment" % v.cls)
            self.call_function(fi, [v, idx, val], {}, node)
            return
        if isinstance(v, dict):
            if is_concrete(idx):
                v[idx] = val
                return
            raise Unsupported("dict store with symbolic key")
        if isinstance(v, list) and concrete_int(idx) is not None:
            v[concrete_int(idx)] = val
            return
        if isinstance(v, HeapArr1):
            h = self.heap
            self._log_write(("a1", v.field))
            if isinstance(idx, slice):
                n = h.len_a1(v.field, v.owner.ref)
                lo, hi = self._clamp(idx.start, idx.stop, n)
                valf = self._valf(val, lo)
                h.write_a1_where(v.field, v.owner.ref, lambda j: z3.And(j >= lo, j < hi), valf)
                return
            if is_arr(idx) and self.arr_dtype(idx) == "bool":
                m = self.arr_reader(idx)
                valf = self._valf(val, 0, masked=True)
                h.write_a1_where(v.field, v.owner.ref, lambda j: core.to_bool(m(j)), valf)
                return
            n = h.len_a1(v.field, v.owner.ref)
            c = concrete_int(idx)
            if c is not None and c < 0:
                idx = n + c
            if self.definedness:
                self.oblige("defined", "index-in-range@L%s" % getattr(node, "lineno", "?"), z3.And(to_z3num(idx) >= 0, to_z3num(idx) < n), getattr(node, "lineno", None))
            h.write_a1(v.field, v.owner.ref, to_z3num(idx), to_real(self._scalar(val)))
            return
        if isinstance(v, HeapArr2):
            self._log_write(("a2", v.field))
            h = self.heap
            nr = h.rows_a2(v.field, v.owner.ref)
            i, j = idx
            if is_arr(j) and concrete_int(self.arr_len(j)) == 1:
                j = self.arr_get(j, 0)  # a one-element index array selects one column
                if is_arr2(val) and concrete_int(self.arr2_dims(val)[1]) == 1:
                    rd2 = self.arr2_reader(val)
                    nrv = self.arr2_dims(val)[0]
                    val = LArr(nrv, lambda r, rd2=rd2: rd2(r, 0))
            if isinstance(j, slice) or is_arr(j):
                raise Unsupported("store to several columns")
            j = to_z3num(j)
            if isinstance(i, slice):
                lo, hi = self._clamp(i.start, i.stop, nr)
                valf = self._valf(val, lo)
                h.write_a2_where(v.field, v.owner.ref, lambda r, c: z3.And(c == j, r >= lo, r < hi), lambda r, c: valf(r), col=j)
                return
            if is_arr(i) and self.arr_dtype(i) == "bool":
                m = self.arr_reader(i)
                valf = self._valf(val, 0, masked=True)
                h.write_a2_where(v.field, v.owner.ref, lambda r, c: z3.And(c == j, r >= 0, r < nr, core.to_bool(m(r))), lambda r, c: valf(r), col=j)
                return
            ci = concrete_int(i)
            if ci is not None and ci < 0:
                i = nr + ci
            i = to_z3num(i)
            if self.definedness:
                self.oblige("defined", "row-in-range@L%s" % getattr(node, "lineno", "?"), z3.And(i >= 0, i < nr), getattr(node, "lineno", None))
            sv = to_real(self._scalar(val))
            h.write_a2_where(v.field, v.owner.ref, lambda r, c: z3.And(c == j, r == i), lambda r, c: sv, col=j, row=i)
            return
        if isinstance(v, LArr):
            if v.readonly:
                raise Unsupported("store through an array whose identity depends on dynamic dispatch (line %s): the receiver's class must be fixed by the precondition" % getattr(node, "lineno", "?"))
            old = v.get
            if isinstance(idx, slice):
                lo, hi = self._clamp(idx.start, idx.stop, v.n)
                valf = self._valf(val, lo)
                v.get = lambda k, old=old: ite(z3.And(to_z3num(k) >= lo, to_z3num(k) < hi), valf(k), old(k))
                return
            if is_arr(idx) and self.arr_dtype(idx) == "bool" and concrete_int(self.arr_len(idx)) is not None and concrete_int(self.arr_len(idx)) <= 4 and concrete_int(v.n) == concrete_int(self.arr_len(idx)):
                # small mask: decide each bit (no fork where the path condition already decides it), then the selected cells take
                # the values in order -- numpy's semantics for `a[mask] = values`
                n = concrete_int(v.n)
                rdm = self.arr_reader(idx)
                bits = [bool(self.branch(core.to_bool(rdm(i)))) for i in range(n)]
                cells = [old(i) for i in range(n)]
                if is_arr(val):
                    nv = concrete_int(self.arr_len(val))
                    rv = self.arr_reader(val)
                    if nv == sum(bits):
                        j = 0
                        for i in range(n):
                            if bits[i]:
                                cells[i] = rv(j)
                                j += 1
                    elif nv == 1:
                        cells = [rv(0) if b else c for b, c in zip(bits, cells)]
                    else:
                        raise Unsupported("masked store of %s values into %d selected cells" % (nv, sum(bits)))
                else:
                    sv = self._scalar(val)
                    cells = [sv if b else c for b, c in zip(bits, cells)]
                v.get = self._list_reader(cells)
                return
            if is_arr(idx) and self.arr_dtype(idx) == "bool":
                m = self.arr_reader(idx)
                valf = self._valf(val, 0, masked=True)
                v.get = lambda k, old=old: ite(core.to_bool(m(k)), valf(k), old(k))
                return
            c = concrete_int(idx)
            if c is not None and c < 0:
                idx = v.n + c
            if self.definedness and not (concrete_int(idx) is not None and concrete_int(v.n) is not None and 0 <= concrete_int(idx) < concrete_int(v.n)):
                self.oblige("defined", "index-in-range@L%s" % getattr(node, "lineno", "?"), z3.And(to_z3num(idx) >= 0, to_z3num(idx) < to_z3num(v.n)), getattr(node, "lineno", None))
            sv = self._scalar(val)
            ci = concrete_int(idx)

            def newget(k, old=old, idx=idx, sv=sv, ci=ci):
                ck = concrete_int(k)
                if ck is not None and ci is not None:
                    return sv if ck == ci else old(k)
                return ite(to_z3num(k) == to_z3num(idx), sv, old(k))

            v.get = newget
            return
        if isinstance(v, np.ndarray):
            if is_concrete(idx) and is_concrete(val):
                v[idx] = val
                return
            raise Unsupported("symbolic store into concrete ndarray (convert with np.array first)")
        if isinstance(v, LArr2) and isinstance(idx, LArr2) and not is_arr(val) and not is_arr2(val):
            # a[mask] = scalar with a 2-D mask of the same shape: every selected cell takes the value, the others keep theirs
            da, dm = self.arr2_dims(v), self.arr2_dims(idx)
            if not all(concrete_int(x) is not None and concrete_int(x) == concrete_int(y) for x, y in zip(da, dm)):
                raise Unsupported("2-D boolean-mask store with a mask of another (or symbolic) shape")
            old, m, sv = v.get, idx.get, val
            v.get = lambda i, j: ite(core.to_bool(m(i, j)), sv, old(i, j))
            return
        raise Unsupported("subscript store on %r" % (v,))

    def _scalar(self, val):
        if is_arr(val):
            n = concrete_int(self.arr_len(val))
            if n == 1:
                return self.arr_get(val, 0)
            raise Unsupported("array assigned to a scalar cell")
        return val

    def _valf(self, val, lo, masked=False):
        """value function for slice stores: scalar broadcast or array (element j-lo; masked: element j)"""
        if is_arr(val):
            rd = self.arr_reader(val)
            if masked:
                n = concrete_int(self.arr_len(val))
                if n == 1:
                    return lambda j: to_real(rd(0))
                raise Unsupported("array value in boolean-mask store (only scalars / same-mask RHS)")
            return lambda j, rd=rd, lo=lo: to_real(rd(simp(to_z3num(j) - to_z3num(lo)) if not (isinstance(lo, int) and lo == 0) else j))
        sv = to_real(val)
        return lambda j: sv

    # ------------------------------------------------------------------------------------------ expressions
    def eval(self, node, env):
        stubs = getattr(self, "expr_stubs", None)
        if stubs and isinstance(node, (ast.Call, ast.Attribute, ast.Compare, ast.Subscript, ast.Tuple)):
            key = ast.unparse(node).replace('"', "'")
            if key in stubs:
                # an external sub-expression named by the contract: its value is the ghost parameter (assumed contract on a dependency)
                self.assumptions_log.add("stub: `%s` is the contract's ghost value %s (external code; assumed, not verified)" % (key, stubs[key]))
                v = self.ghost_env[stubs[key]]
                if isinstance(v, LArr):
                    return LArr(v.n, v.get, True, v.dtype)  # a fresh array each time (TimeSeries.interpolate allocates)
                return v
        m = getattr(self, "e_" + type(node).__name__, None)
        if m is None:
            raise Unsupported("expression %s at line %s" % (type(node).__name__, getattr(node, "lineno", "?")))
        return m(node, env)

    def e_Constant(self, node, env):
        return node.value

    def e_Name(self, node, env):
        name = node.id
        if name in env:
            return env[name]
        return self.global_name(name, node)

    def global_name(self, name, node=None):
        from . import lib

        e = getattr(self, "closure_env", None)
        if e is not None and name in e:
            return e[name]
        return lib.global_name(self, name, node)

    def e_Attribute(self, node, env):
        v = self.eval(node.value, env)
        return self.get_attr(v, node.attr, node)

    def e_Subscript(self, node, env):
        v = self.eval(node.value, env)
        idx = self.eval_index(node.slice, env)
        return self.subscript_load(v, idx, node)

    def eval_index(self, node, env):
        if isinstance(node, ast.Slice):
            return slice(self.eval(node.lower, env) if node.lower else None, self.eval(node.upper, env) if node.upper else None, self.eval(node.step, env) if node.step else None)
        if isinstance(node, ast.Tuple):
            stubs = getattr(self, "expr_stubs", None)
            if stubs and ast.unparse(node).replace('"', "'") in stubs:
                return self.eval(node, env)  # a tuple key named by the contract (ghost value)
            return tuple(self.eval_index(e, env) for e in node.elts)
        return self.eval(node, env)

    def e_BinOp(self, node, env):
        a = self.eval(node.left, env)
        b = self.eval(node.right, env)
        return self.binop(node.op, a, b, node)

    def e_UnaryOp(self, node, env):
        return self.unop(node.op, self.eval(node.operand, env), node)

    def e_BoolOp(self, node, env):
        # short-circuit semantics: evaluate left to right; later operands are evaluated under the assumption that the
        # earlier ones did not short-circuit; symbolic scalars are folded into And/Or
        is_and = isinstance(node.op, ast.And)
        result_terms = []
        n_pc = len(self.pc)
        last = None
        value_ops = []
        try:
            for sub in node.values:
                try:
                    v = self.eval(sub, env)
                except Infeasible:
                    if len(self.pc) == n_pc:
                        raise
                    # the earlier operands cannot all be non-short-circuiting here: the remaining ones are never evaluated
                    result_terms.append(not is_and)
                    break
                t = self.truth(v)
                if value_ops is not None:
                    if (is_z3(v) and z3.is_arith(v)) or (isinstance(v, (int, float)) and not isinstance(v, bool)):
                        value_ops.append((t if not isinstance(t, bool) else z3.BoolVal(t), v))
                    else:
                        value_ops = None
                if isinstance(t, bool):
                    if is_and and not t:
                        return v if not result_terms else False
                    if not is_and and t:
                        if result_terms and value_ops is not None:
                            last = v
                            break
                        return v if not result_terms else True
                    last = v
                    continue
                if isinstance(t, (ForallV, ExistsV)):
                    result_terms.append(t)
                    last = v
                    continue
                result_terms.append(t)
                self.pc.append(t if is_and else z3.Not(t))
                last = v
        finally:
            del self.pc[n_pc:]
        if not result_terms:
            return last
        if any(isinstance(t, (ForallV, ExistsV)) for t in result_terms):
            return self._bool_combine(is_and, result_terms)
        if value_ops is not None:
            # `a or b` / `a and b` on numbers return one of the operands
            res = value_ops[-1][1]
            for t, v in reversed(value_ops[:-1]):
                res = ite(t, v, res) if not is_and else ite(t, res, v)
            return res
        return conj(*result_terms) if is_and else disj(*result_terms)

    def _bool_combine(self, is_and, terms):
        plain = [t for t in terms if not isinstance(t, (ForallV, ExistsV))]
        quant = [t for t in terms if isinstance(t, (ForallV, ExistsV))]
        if len(quant) == 1 and isinstance(quant[0], ExistsV) and is_and:
            return ("and", plain, quant[0])
        if len(quant) == 1 and isinstance(quant[0], ForallV):
            q = quant[0]
            if is_and:
                return ("and", plain, q)
            return ForallV(q.n, lambda k, q=q, plain=plain: disj(*(plain + [core.to_bool(q.body(k))])))
        raise Unsupported("boolean combination of several quantified formulas")

    def e_Compare(self, node, env):
        left = self.eval(node.left, env)
        res = []
        for op, rn in zip(node.ops, node.comparators):
            right = self.eval(rn, env)
            r = self.compare(op, left, right, node)
            res.append(r)
            left = right
        if len(res) == 1:
            return res[0]
        if any(is_arr(r) for r in res):
            raise Unsupported("chained comparison on arrays")
        return conj(*[core.to_bool(r) if is_z3(r) else r for r in res])

    def e_IfExp(self, node, env):
        c = self.truth(self.eval(node.test, env))
        if isinstance(c, bool):
            return self.eval(node.body if c else node.orelse, env)
        # evaluate both sides under the respective assumption, merge scalars with ite
        a = b = None
        a_ok = b_ok = True
        n_pc = len(self.pc)
        self.pc.append(c)
        try:
            a = self.eval(node.body, env)
        except Infeasible:
            a_ok = False
        finally:
            del self.pc[n_pc:]
        self.pc.append(z3.Not(c))
        try:
            b = self.eval(node.orelse, env)
        except Infeasible:
            b_ok = False
        finally:
            del self.pc[n_pc:]
        if not a_ok and not b_ok:
            raise Infeasible()
        if not a_ok:
            return b
        if not b_ok:
            return a
        nonfinite = lambda x: isinstance(x, float) and (x != x or x in (float("inf"), float("-inf")))
        if self.mode != "FPSTD" and (is_z3(a) or isinstance(a, (int, float))) and (is_z3(b) or isinstance(b, (int, float))) and not nonfinite(a) and not nonfinite(b):
            return ite(c, a, b)
        if self.branch(c):  # (an infinite / NaN branch value is not a real-number term: decide the condition on this path)  # (FPSTD obligations are decided per path: integer rounding terms do not mix well with if-then-else)
            return a
        return b

    def e_Tuple(self, node, env):
        return tuple(self.eval(e, env) for e in node.elts)

    def e_List(self, node, env):
        return [self.eval(e, env) for e in node.elts]

    def e_Set(self, node, env):
        return set(self.eval(e, env) for e in node.elts)

    def e_Dict(self, node, env):
        out = {}
        for k, v in zip(node.keys, node.values):
            try:
                val = self.eval(v, env)
            except Unsupported as u:
                val = Opaque("dict value: %s" % u)
            out[self.eval(k, env)] = val
        return out

    def e_JoinedStr(self, node, env):
        return Opaque("f-string")

    def e_Lambda(self, node, env):
        return LambdaV(node, dict(env))

    def e_GeneratorExp(self, node, env):
        return GenV(node, env)

    def e_ListComp(self, node, env):
        return self.materialise(GenV(node, env))

    def e_SetComp(self, node, env):
        v = self.materialise(GenV(node, env))
        if isinstance(v, list):
            return set(v)
        raise Unsupported("symbolic set comprehension")

    def e_DictComp(self, node, env):
        if len(node.generators) != 1:
            raise Unsupported("nested dict comprehension")
        g = node.generators[0]
        it = self.eval(g.iter, env)
        it = self.iterable(it)
        if not isinstance(it, list):
            raise Unsupported("dict comprehension over a symbolic sequence")
        out = {}
        for x in it:
            e2 = dict(env)
            self.assign_target(g.target, x, e2)
            if all(self._concrete_truth(self.eval(c, e2)) for c in g.ifs):
                out[self.eval(node.key, e2)] = self.eval(node.value, e2)
        return out

    def _concrete_truth(self, v):
        t = self.truth(v)
        if isinstance(t, bool):
            return t
        return self.branch(t)

    def e_Call(self, node, env):
        from . import lib

        return lib.eval_call(self, node, env)

    def e_Starred(self, node, env):
        raise Unsupported("starred expression")

    def e_NamedExpr(self, node, env):
        v = self.eval(node.value, env)
        env[node.target.id] = v
        return v

    # -- comprehensions / iteration
    def iterable(self, v):
        """-> python list (concrete length) or a symbolic sequence (SymList / MapSeq / array)"""
        if isinstance(v, (list, tuple)):
            return list(v)
        if isinstance(v, (set, frozenset)):
            return sorted(v, key=repr)
        if isinstance(v, dict):
            return list(v.keys())
        if isinstance(v, range):
            return list(v)
        if isinstance(v, np.ndarray):
            return list(v)
        if isinstance(v, str):
            return list(v)
        if isinstance(v, GenV):
            return self.materialise(v)
        if isinstance(v, (SymList, MapSeq)):
            c = self.forced_length(v)
            if c is not None:
                for i in range(c):
                    self.register_index(z3.IntVal(i))  # quantified assumptions are instantiated on the unrolled positions
                return [self.seq_elem(v, z3.IntVal(i)) for i in range(c)]
            return v
        if is_arr(v):
            n = concrete_int(self.arr_len(v))
            rd = self.arr_reader(v)
            if n is not None:
                return [rd(i) for i in range(n)]
            return MapSeq(self.arr_len(v), rd, is_array=True)
        if isinstance(v, LArr2) and concrete_int(v.nr) is not None:
            # iterating a 2-D array yields its rows
            return [LArr(v.nc, (lambda r: (lambda j: v.get(r, j)))(i)) for i in range(concrete_int(v.nr))]
        raise Unsupported("iteration over %r" % (v,))

    def forced_length(self, v):
        """contract option `unroll_max`: a symbolic sequence whose length the path condition forces to a constant c <= unroll_max
        is iterated element by element (complete for that length; the contract states the length in its precondition)"""
        lim = getattr(self, "unroll_max", None)
        if not lim:
            return None
        n = self.seq_len(v)
        c = concrete_int(n)
        if c is not None:
            return c if c <= lim else None
        n = to_z3num(n)
        for c in range(lim + 1):
            if not self.feasible(n != c):
                return c
            if self.feasible(n == c):
                return None
        return None

    def materialise(self, g):
        """evaluate a comprehension: list for concrete iterables, MapSeq for one symbolic generator without ifs"""
        node = g.node
        gens = node.generators
        first = self.iterable(self.eval(gens[0].iter, g.env))
        if isinstance(first, list):
            out = []
            for x in first:
                e2 = dict(g.env)
                self.assign_target(gens[0].target, x, e2)
                ok = True
                for c in gens[0].ifs:
                    if not self._concrete_truth(self.eval(c, e2)):
                        ok = False
                        break
                if not ok:
                    continue
                if len(gens) > 1:
                    sub = ast.GeneratorExp(elt=node.elt, generators=gens[1:])
                    r = self.materialise(GenV(sub, e2))
                    if not isinstance(r, list):
                        raise Unsupported("nested symbolic comprehension")
                    out += r
                else:
                    out.append(self.eval(node.elt, e2))
            return out
        if len(gens) != 1 or gens[0].ifs:
            raise Unsupported("comprehension with filter / nesting over a symbolic sequence (line %s)" % getattr(node, "lineno", "?"))
        seq = first
        n = self.seq_len(seq)

        def get_raw(k, seq=seq, g=g, node=node):
            e2 = dict(g.env)
            self.assign_target(gens[0].target, self.seq_elem(seq, k), e2)
            return self.eval(node.elt, e2)

        # definedness of the element expression: once, for a generic registered index; later (lazy) evaluations are silent
        if self.definedness:
            kk = fresh("kc", z3.IntSort())
            self.register_index(kk)
            self.pc.append(z3.And(0 <= kk, kk < to_z3num(n)))
            try:
                get_raw(kk)
            finally:
                self.pc.pop()
        heap_at_creation = self.heap.copy()

        def get(k):
            save = (self.definedness, self.heap)
            self.definedness = False
            self.heap = heap_at_creation.copy()
            try:
                return get_raw(k)
            finally:
                self.definedness, self.heap = save

        return MapSeq(n, get)

    # ------------------------------------------------------------------------------------------ statements
    def exec_block(self, stmts, env):
        for s in stmts:
            self.exec(s, env)

    def exec(self, node, env):
        m = getattr(self, "s_" + type(node).__name__, None)
        if m is None:
            raise Unsupported("statement %s at line %s" % (type(node).__name__, getattr(node, "lineno", "?")))
        return m(node, env)

    def s_Pass(self, node, env):
        pass

    def s_Expr(self, node, env):
        if isinstance(node.value, ast.Constant):
            return
        self.eval(node.value, env)

    def s_Return(self, node, env):
        raise _Return(self.eval(node.value, env) if node.value else None)

    def s_Break(self, node, env):
        raise _Break()

    def s_Continue(self, node, env):
        raise _Continue()

    def s_Import(self, node, env):
        for a in node.names:
            env[a.asname or a.name.split(".")[0]] = ModuleV(a.name)

    def s_ImportFrom(self, node, env):
        for a in node.names:
            env[a.asname or a.name] = Opaque("import:%s" % a.name)

    def s_FunctionDef(self, node, env):
        from .source import FuncInfo

        fi = FuncInfo(self.module, None, node, "")
        env[node.name] = FuncV(fi, closure_env=env)

    def s_Delete(self, node, env):
        for t in node.targets:
            if isinstance(t, ast.Subscript):
                o = self.eval(t.value, env)
                idx = self.eval_index(t.slice, env)
                if isinstance(o, (list, dict)) and (concrete_int(idx) is not None or is_concrete(idx)):
                    del o[concrete_int(idx) if concrete_int(idx) is not None else idx]
                    continue
            if isinstance(t, ast.Name) and t.id in env:
                del env[t.id]
                continue
            raise Unsupported("del %s" % ast.unparse(t))

    def s_Assert(self, node, env):
        c = self.truth(self.eval(node.test, env))
        if isinstance(c, bool):
            if not c:
                raise _Raise("AssertionError", node)
            return
        if isinstance(c, (ForallV, ExistsV)) or (isinstance(c, tuple) and c and c[0] == "and"):
            if not self.branch_quantified(c):
                raise _Raise("AssertionError", node)
            return
        if not self.branch(c):
            raise _Raise("AssertionError", node)

    def s_Raise(self, node, env):
        exc = "Exception"
        if node.exc is not None:
            e = node.exc
            if isinstance(e, ast.Call):
                # evaluate the arguments (message construction must itself be defined)
                f = e.func
                exc = f.id if isinstance(f, ast.Name) else (f.attr if isinstance(f, ast.Attribute) else "Exception")
                for a in e.args:
                    try:
                        self.eval(a, env)
                    except Unsupported:
                        pass
            elif isinstance(e, ast.Name):
                exc = e.id
                if exc in env and isinstance(env[exc], Opaque):
                    exc = env[exc].what
        raise _Raise(exc, node)

    def s_If(self, node, env):
        c = self.truth(self.eval(node.test, env))
        if isinstance(c, (ForallV, ExistsV, tuple)):
            taken = self.branch_quantified(c)
            self.exec_block(node.body if taken else node.orelse, env)
            return
        if self.branch(c):
            self.exec_block(node.body, env)
        else:
            self.exec_block(node.orelse, env)

    def s_Assign(self, node, env):
        v = self.eval(node.value, env)
        for t in node.targets:
            self.assign_target(t, v, env)

    def s_AnnAssign(self, node, env):
        if node.value is not None:
            self.assign_target(node.target, self.eval(node.value, env), env)

    def assign_target(self, t, v, env):
        if isinstance(t, ast.Name):
            env[t.id] = v
        elif isinstance(t, (ast.Tuple, ast.List)):
            vs = self.iterable(v)
            if not isinstance(vs, list) or len(vs) != len(t.elts):
                raise Unsupported("tuple unpacking of %r" % (v,))
            for tt, vv in zip(t.elts, vs):
                self.assign_target(tt, vv, env)
        elif isinstance(t, ast.Attribute):
            o = self.eval(t.value, env)
            if isinstance(o, PyObjV) and t.attr == "__dict__" and isinstance(v, dict):
                o.fields = v
            elif isinstance(o, PyObjV):
                o.fields[t.attr] = v
            elif isinstance(o, ObjV):
                self.write_field(o, t.attr, v, t)
            elif isinstance(o, Opaque):
                raise Unsupported("attribute store on opaque value")
            elif hasattr(o, "__dict__") and not isinstance(o, (type, ModuleV, ClassV)):
                setattr(o, t.attr, v)  # a concrete Python object created for this path (e.g. an ast node)
            else:
                raise Unsupported("attribute store on %r" % (o,))
        elif isinstance(t, ast.Subscript):
            o = self.eval(t.value, env)
            idx = self.eval_index(t.slice, env)
            self.subscript_store(o, idx, v, t)
        else:
            raise Unsupported("assignment target %s" % type(t).__name__)

    def s_AugAssign(self, node, env):
        t = node.target
        if isinstance(t, ast.Name):
            cur = self.eval(t, env)
            rhs = self.eval(node.value, env)
            if isinstance(cur, LArr):
                if cur.readonly:
                    raise Unsupported("in-place update of a dispatch-dependent array (line %s)" % node.lineno)
                new = self.binop(node.op, cur, rhs, node)
                # in place: same object, new contents; numpy keeps the shape of the target
                if concrete_int(cur.n) is not None and concrete_int(new.n) is not None and concrete_int(cur.n) != concrete_int(new.n):
                    self.oblige("defined", "inplace-broadcast@L%s" % node.lineno, False, node.lineno)
                    raise Aborted()
                elif not (is_z3(to_z3num(cur.n)) and to_z3num(cur.n).eq(to_z3num(new.n))):
                    self.oblige("defined", "inplace-broadcast@L%s" % node.lineno, to_z3num(cur.n) == to_z3num(new.n), node.lineno)
                cur.get = new.get
                return
            if isinstance(cur, (HeapArr1,)):
                new = self.binop(node.op, cur, rhs, node)
                rd = new.get
                self._log_write(("a1", cur.field))
                self.heap.write_a1_where(cur.field, cur.owner.ref, lambda j: True, lambda j: to_real(rd(j)))
                return
            if isinstance(cur, list) and isinstance(node.op, ast.Add):
                cur.extend(self.iterable(rhs))
                return
            if isinstance(cur, LArr2):
                # numpy updates a 2-D array in place: the same object (and every other name for it) gets the new contents; the
                # shape of the target is kept
                new = self.binop(node.op, cur, rhs, node)
                dc, dn = self.arr2_dims(cur), (self.arr2_dims(new) if is_arr2(new) else None)

                def same_dim(a, b):
                    if concrete_int(a) is not None and concrete_int(b) is not None:
                        return concrete_int(a) == concrete_int(b)
                    return a is b or (is_z3(to_z3num(a)) and is_z3(to_z3num(b)) and to_z3num(a).eq(to_z3num(b)))

                if dn is None or not all(same_dim(a, b) for a, b in zip(dc, dn)):
                    raise Unsupported("in-place update of a 2-D array whose shape cannot be shown to stay the same (line %s)" % node.lineno)
                cur.get = self.arr2_reader(new)
                base = getattr(cur, "transpose_of", None)
                if base is not None:
                    g = cur.get
                    base.get = lambda i, j, g=g: g(j, i)
                return
            env[t.id] = self.binop(node.op, cur, rhs, node)
            return
        if isinstance(t, ast.Attribute):
            o = self.eval(t.value, env)
            cur = self.get_attr(o, t.attr, t)
            rhs = self.eval(node.value, env)
            if isinstance(cur, HeapArr1):
                new = self.binop(node.op, cur, rhs, node)
                rd = new.get
                self._log_write(("a1", cur.field))
                self.heap.write_a1_where(cur.field, cur.owner.ref, lambda j: True, lambda j: to_real(rd(j)))
                return
            if isinstance(o, PyObjV):
                o.fields[t.attr] = self.binop(node.op, cur, rhs, node)
                return
            self.write_field(o, t.attr, self.binop(node.op, cur, rhs, node), t)
            return
        if isinstance(t, ast.Subscript):
            o = self.eval(t.value, env)
            idx = self.eval_index(t.slice, env)
            cur = self.subscript_load(o, idx, t)
            rhs = self.eval(node.value, env)
            # boolean-mask updates a[m] op= b[m]: element-wise conditional update (same mask on both sides)
            new = self.binop(node.op, cur, rhs, node)
            save = self.definedness
            self.definedness = False  # the load above already produced the index obligations
            try:
                self.subscript_store(o, idx, new, t)
            finally:
                self.definedness = save
            return
        raise Unsupported("augmented assignment target")

    def caught_here(self, exc):
        """is an exception of class `exc` raised now caught by an enclosing try of the code under execution -- or named by the
        contract's `raises` (then it reaches the raises clause of the contract instead of being a definedness failure)?"""
        if exc in getattr(self, "contract_raises", ()):
            return True
        return any(any(self._handler_matches(h, exc) for h in hs) for hs in getattr(self, "_handlers", []))

    def s_Try(self, node, env):
        self.__dict__.setdefault("_handlers", []).append(node.handlers)
        try:
            try:
                self.exec_block(node.body, env)
            finally:
                self._handlers.pop()
        except _Raise as r:
            for h in node.handlers:
                if self._handler_matches(h, r.exc_class):
                    if h.name:
                        env[h.name] = Opaque("exception:" + r.exc_class)
                    try:
                        self.exec_block(h.body, env)
                    finally:
                        pass
                    break
            else:
                if node.finalbody:
                    self.exec_block(node.finalbody, env)
                raise
        else:
            self.exec_block(node.orelse, env)
        if node.finalbody:
            self.exec_block(node.finalbody, env)

    def _handler_matches(self, h, exc):
        if h.type is None:
            return True
        names = []
        if isinstance(h.type, ast.Name):
            names = [h.type.id]
        elif isinstance(h.type, ast.Tuple):
            names = [e.id for e in h.type.elts if isinstance(e, ast.Name)]
        from .lib import exception_is_subclass

        return any(exception_is_subclass(self, exc, n) for n in names)

    def s_While(self, node, env):
        from . import loops

        loops.exec_while(self, node, env)

    def s_For(self, node, env):
        from . import loops

        loops.exec_for(self, node, env)

    # ------------------------------------------------------------------------------------------ calls
    def call_function(self, fi, args, kwargs, node=None):
        """inline the body of a function from the parsed source"""
        if self.depth > 12:
            raise Unsupported("call depth exceeded (recursion?) at %s" % fi.qualname)
        a = fi.node.args
        if any(d not in ("property", "classmethod", "staticmethod", "setter") for d in fi.decorators):
            raise Unsupported("decorated function %s (%s)" % (fi.qualname, fi.decorators))
        env = {}
        params = [p.arg for p in a.posonlyargs + a.args]
        defaults = a.defaults
        n_nodef = len(params) - len(defaults)
        for i, p in enumerate(params):
            if i < len(args):
                env[p] = args[i]
            elif p in kwargs:
                env[p] = kwargs[p]
            elif i >= n_nodef:
                env[p] = self.eval(defaults[i - n_nodef], {})
            else:
                raise Unsupported("missing argument %s in call to %s" % (p, fi.qualname))
        if len(args) > len(params):
            if a.vararg:
                env[a.vararg.arg] = tuple(args[len(params):])
            else:
                raise Unsupported("too many arguments in call to %s" % fi.qualname)
        elif a.vararg:
            env[a.vararg.arg] = ()
        for p, d in zip(a.kwonlyargs, a.kw_defaults):
            if p.arg in kwargs:
                env[p.arg] = kwargs[p.arg]
            elif d is not None:
                env[p.arg] = self.eval(d, {})
        extra = {k: v for k, v in kwargs.items() if k not in params and k not in [p.arg for p in a.kwonlyargs]}
        if a.kwarg:
            env[a.kwarg.arg] = extra
        elif extra:
            raise Unsupported("unexpected keyword arguments %s in call to %s" % (sorted(extra), fi.qualname))
        saved_closure = getattr(self, "closure_env", None)
        saved_module = self.module
        self.depth += 1
        self.func_stack.append(fi.qualname)
        if fi.module is not None and fi.module is not self.module and hasattr(fi.module, "classes"):
            self.module = fi.module
        try:
            self.closure_env = getattr(fi, "closure_env", None)
            self.exec_block(fi.body(), env)
            return None
        except _Return as r:
            return r.value
        finally:
            self.closure_env = saved_closure
            self.module = saved_module
            self.depth -= 1
            self.func_stack.pop()
