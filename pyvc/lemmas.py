"""
pyvc.lemmas -- the facts about finite sums that the lemma engine (verify.lemma_facts) and the normaliser (sums.make_sum)
instantiate, each proved here by induction over the upper bound for *uninterpreted* summands, on every run.

A lemma  forall j >= 0. P(j)  is discharged as two quantifier-free VCs:   base: P(0)    step: j >= 0 and P(j) => P(j+1)
where the prefix sums S_f are uninterpreted functions constrained only by their defining equations at the points used
(S_f(0) = 0, S_f(j+1) = S_f(j) + f(j)).  The induction principle itself is the trusted meta-argument.
Pointwise hypotheses (forall k < j. H(k)) are used in the step at k = j only (H(j)) together with the induction
hypothesis, which is how the engine uses them: it proves H for a fresh k in range before adding the instance.
"""
import time
import z3


def _S(name):
    return z3.Function(name, z3.IntSort(), z3.RealSort())


def lemma_vcs():
    j = z3.Int("j")
    i = z3.Int("i")
    a, b = z3.Reals("a b")
    f, g = _S("f"), _S("g")
    Sf, Sg, Sh = _S("S_f"), _S("S_g"), _S("S_h")
    defs = lambda j: [Sf(0) == 0, Sg(0) == 0, Sh(0) == 0, Sf(j + 1) == Sf(j) + f(j), Sg(j + 1) == Sg(j) + g(j)]
    out = []

    def add(name, P, step_hyps, h_summand=None):
        d = defs(j)
        if h_summand is not None:
            d = d + [Sh(j + 1) == Sh(j) + h_summand(j)]
        out.append((name + ".base", d, P(z3.IntVal(0))))
        out.append((name + ".step", d + [j >= 0, P(j)] + step_hyps, P(j + 1)))

    # LINEAR: SUM(a*f + b*g) = a*SUM(f) + b*SUM(g)      (normaliser: linear combination of atoms)
    add("sum_linear", lambda x: Sh(x) == a * Sf(x) + b * Sg(x), [], h_summand=lambda k: a * f(k) + b * g(k))
    # NONNEG: f >= 0 pointwise  =>  SUM(f) >= 0
    add("sum_nonneg", lambda x: Sf(x) >= 0, [f(j) >= 0])
    # NONPOS
    add("sum_nonpos", lambda x: Sf(x) <= 0, [f(j) <= 0])
    # ZERO
    add("sum_zero", lambda x: Sf(x) == 0, [f(j) == 0])
    # EXT: pointwise equal summands have equal sums
    add("sum_ext", lambda x: Sf(x) == Sg(x), [f(j) == g(j)])
    # MONO: f <= g pointwise => SUM(f) <= SUM(g)
    add("sum_mono", lambda x: Sf(x) <= Sg(x), [f(j) <= g(j)])
    # ELEM: f >= 0 pointwise => f(i) <= SUM_{k<j} f(k) for 0 <= i < j      (and prefix monotonicity)
    add("sum_elem", lambda x: z3.And(Sf(x) >= 0, z3.Implies(z3.And(0 <= i, i < x), f(i) <= Sf(x))), [f(j) >= 0])
    # PREFIX-MONO: f >= 0 pointwise => 0 <= S(i) <= S(x) for 0 <= i <= x.  Induction hypothesis used at i and at j.
    Pm = lambda x, ii: z3.Implies(z3.And(0 <= ii, ii <= x), z3.And(Sf(ii) >= 0, Sf(ii) <= Sf(x)))
    d = defs(j)
    out.append(("sum_prefix_mono.base", d, Pm(z3.IntVal(0), i)))
    out.append(("sum_prefix_mono.step", d + [j >= 0, Pm(j, i), Pm(j, j), f(j) >= 0], Pm(j + 1, i)))
    # GUARD: SUM(ite(c, f, 0)) is the sum of an ordinary summand: nothing to prove (atoms with guards are sums of ite terms)
    # CONST: SUM_{k<j} 1 = j
    add("sum_const", lambda x: Sh(x) == z3.ToReal(x), [], h_summand=lambda k: z3.RealVal(1))
    # RANGE: a bound on the index inside the guard moves into the range of the sum.  m(x) = min(x, max(p, 0))
    p = z3.Int("p")
    m = lambda x: z3.If(p <= 0, z3.IntVal(0), z3.If(p <= x, p, x))
    add("sum_range_upper", lambda x: Sh(x) == Sf(m(x)), [], h_summand=lambda k: z3.If(k < p, f(k), z3.RealVal(0)))
    add("sum_range_lower", lambda x: Sh(x) == Sf(x) - Sf(m(x)), [], h_summand=lambda k: z3.If(k >= p, f(k), z3.RealVal(0)))
    return out


def prove_lemmas(timeout_ms=20000):
    res = []
    for name, hyps, goal in lemma_vcs():
        t0 = time.time()
        s = z3.Solver()
        s.set("timeout", timeout_ms)
        s.add(*hyps)
        s.add(z3.Not(goal))
        r = s.check()
        res.append(dict(name="lemma:" + name, kind="lemma", status="proved" if r == z3.unsat else ("refuted" if r == z3.sat else "unknown"), seconds=round(time.time() - t0, 4), backend="z3"))
    return res


if __name__ == "__main__":
    for r in prove_lemmas():
        print(r)
