"""
pyvc.core -- terms, sorts, values and the heap model of the VC generator.

Everything here is quantifier-free: heap fields are Python-level update chains over uninterpreted base
functions, list fields are (len, elem, idx) triples with the injectivity fact instantiated per created term,
quantified assumptions are kept as closures and instantiated on the registered index terms at solve time.
"""
import itertools
import z3

Ref = z3.DeclareSort("Ref")
Str = z3.DeclareSort("Str")
NONE = z3.Const("None", Ref)
typeof = z3.Function("typeof", Ref, z3.IntSort())
alloc = z3.Function("alloc", Ref, z3.IntSort())  # <=0: existed in the pre-state, >0: allocated by the function

_counter = itertools.count()


def fresh(prefix, sort):
    return z3.Const("%s!%d" % (prefix, next(_counter)), sort)


def fresh_name(prefix):
    return "%s!%d" % (prefix, next(_counter))


def is_z3(x):
    return isinstance(x, z3.ExprRef)


def is_num(x):
    return isinstance(x, (int, float)) and not isinstance(x, bool) or (is_z3(x) and z3.is_arith(x))


def is_symbolic(x):
    return is_z3(x)


def to_z3num(x):
    if is_z3(x):
        return x
    if isinstance(x, bool):
        return z3.IntVal(int(x))
    if isinstance(x, int):
        return z3.IntVal(x)
    if isinstance(x, float):
        if x != x or x in (float("inf"), float("-inf")):
            raise Unsupported("non-finite float constant %r in arithmetic" % x)
        return z3.RealVal(repr(x)) if "e" not in repr(x) and "E" not in repr(x) else z3.RealVal(_exact(x))
    if hasattr(x, "dtype") and hasattr(x, "item"):
        return to_z3num(x.item())
    raise Unsupported("cannot convert %r to a number term" % (x,))


def _exact(x):
    from fractions import Fraction

    f = Fraction(x)
    return "%d/%d" % (f.numerator, f.denominator)


def to_real(x):
    x = to_z3num(x)
    if z3.is_int(x):
        return z3.ToReal(x)
    return x


def to_bool(x):
    if isinstance(x, bool):
        return z3.BoolVal(x)
    return x


class Unsupported(Exception):
    """A construct the executor does not model: the obligation becomes `unsupported` (exit 2), never a pass."""


class CheckerError(Exception):
    pass


# ----------------------------------------------------------------------------------------------- strings
_str_consts = {}


def str_const(s):
    if s not in _str_consts:
        _str_consts[s] = z3.Const("str:" + s, Str)
    return _str_consts[s]


def str_distinct_facts():
    cs = list(_str_consts.values())
    return [z3.Distinct(*cs)] if len(cs) > 1 else []


# ----------------------------------------------------------------------------------------------- classes
class ClassTable:
    """Class ids for `typeof`; filled from the parsed modules."""

    def __init__(self):
        self.ids = {}
        self.bases = {}

    def add(self, name, bases):
        if name not in self.ids:
            self.ids[name] = len(self.ids) + 1
        self.bases[name] = list(bases)

    def is_subclass(self, a, b):
        if a == b:
            return True
        return any(self.is_subclass(x, b) for x in self.bases.get(a, []))

    def subclasses(self, b):
        return [a for a in self.ids if self.is_subclass(a, b)]

    def isinstance_term(self, ref, cls):
        subs = self.subclasses(cls)
        if not subs:
            return z3.BoolVal(False)
        return z3.Or([typeof(ref) == self.ids[s] for s in subs])

    def classset_term(self, ref, classes):
        return z3.Or([typeof(ref) == self.ids[s] for s in sorted(classes)])


CLASSES = ClassTable()


# ----------------------------------------------------------------------------------------------- values
class ObjV:
    """A heap object: z3 term of sort Ref plus the statically known set of possible classes."""

    __slots__ = ("ref", "classes", "maybe_none")

    def __init__(self, ref, classes, maybe_none=False):
        self.ref = ref
        self.classes = frozenset(classes)
        self.maybe_none = maybe_none

    def __repr__(self):
        return "ObjV(%s:%s%s)" % (self.ref, "|".join(sorted(self.classes)), "?" if self.maybe_none else "")


class SymList:
    """A list-of-objects field with symbolic length: owner.field"""

    __slots__ = ("owner", "field", "elem_classes", "heap")

    def __init__(self, owner, field, elem_classes, heap):
        self.owner = owner
        self.field = field
        self.elem_classes = frozenset(elem_classes)
        self.heap = heap


class MapSeq:
    """A symbolic-length sequence given by a length term and an element closure (comprehension results, zip...)."""

    def __init__(self, n, get, is_array=False):
        self.n = n
        self.get = get
        self.is_array = is_array


class LArr:
    """A local (freshly allocated) 1-D float array: length term and element closure; mutable, has identity."""

    def __init__(self, n, get, fresh_alloc=True, dtype="float", readonly=False):
        self.n = n
        self.get = get
        self.fresh_alloc = fresh_alloc
        self.dtype = dtype
        self.readonly = readonly  # a merged view of dispatch-dependent arrays: stores through it are unsupported

    def snapshot(self):
        return LArr(self.n, self.get, self.fresh_alloc, self.dtype)


class LArr2:
    """A local 2-D float array: (rows, cols) terms and element closure get(i, j)."""

    def __init__(self, nr, nc, get):
        self.nr = nr
        self.nc = nc
        self.get = get


class HeapArr1:
    """View of a 1-D array stored in an object field (owner.field). Reads see later writes, writes go through."""

    def __init__(self, owner, field):
        self.owner = owner
        self.field = field


class HeapArr2:
    def __init__(self, owner, field):
        self.owner = owner
        self.field = field


class HeapCol:
    """View owner.field[:, j] (or owner.field[lo:hi, j]) of a 2-D heap array."""

    def __init__(self, owner, field, j, lo=None, hi=None):
        self.owner = owner
        self.field = field
        self.j = j
        self.lo = lo
        self.hi = hi


SetT = z3.DeclareSort("SetT")
subset_of = z3.Function("subset_of", SetT, SetT, z3.BoolSort())


class SetV:
    """an abstract finite set (uninterpreted sort); `a <= b` is the subset relation (assumed: reflexive, transitive)"""

    def __init__(self, term):
        self.term = term


class Opaque:
    """A value the executor carries around but cannot look into (strings built by formatting, loggers...)."""

    def __init__(self, what):
        self.what = what

    def __repr__(self):
        return "Opaque(%s)" % self.what


# ----------------------------------------------------------------------------------------------- heap
class FieldMap:
    """Immutable update chain over an uninterpreted base function Ref x idx... -> sort."""

    __slots__ = ("base", "updates")

    def __init__(self, base, updates=()):
        self.base = base
        self.updates = updates

    def write(self, guard, val):
        return FieldMap(self.base, self.updates + ((guard, val),))

    def read(self, *args):
        res = self.base(*args) if callable(self.base) else self.base
        for guard, val in self.updates:
            g = guard(*args)
            if g is True:
                res = val(*args)
            elif g is False:
                continue
            else:
                res = z3.If(g, val(*args), res)
        return res


def ref_eq(a, b):
    if a.eq(b):
        return True
    return a == b


def conj(*cs):
    out = []
    for c in cs:
        if c is True:
            continue
        if c is False:
            return False
        out.append(c)
    if not out:
        return True
    return z3.And(out) if len(out) > 1 else out[0]


def disj(*cs):
    out = []
    for c in cs:
        if c is False:
            continue
        if c is True:
            return True
        out.append(c)
    if not out:
        return False
    return z3.Or(out) if len(out) > 1 else out[0]


def neg(c):
    if c is True:
        return False
    if c is False:
        return True
    return z3.Not(c)


def ite(c, a, b):
    if c is True:
        return a
    if c is False:
        return b
    if is_z3(a) and is_z3(b) and a.eq(b):
        return a
    a2, b2 = a, b
    if not is_z3(a2):
        a2 = to_z3num(a2) if not isinstance(a2, bool) else z3.BoolVal(a2)
    if not is_z3(b2):
        b2 = to_z3num(b2) if not isinstance(b2, bool) else z3.BoolVal(b2)
    if z3.is_arith(a2) and z3.is_arith(b2) and a2.sort() != b2.sort():
        a2, b2 = to_real(a2), to_real(b2)
    return z3.If(c, a2, b2)


_SORTS = {"real": z3.RealSort(), "int": z3.IntSort(), "bool": z3.BoolSort(), "ref": Ref, "str": Str}


class Heap:
    """
    Ownership-baked heap: arrays and lists stored in object fields are owned by that object (no two objects share
    a `vals` array or an `outlinks` list).  This invariant is part of wf(model) and listed as an assumption; the
    ownership obligations of pyvc.flow check the assignments that establish it.
    """

    def __init__(self, tag="h0"):
        self.tag = tag
        self.scal = {}  # (field, kind) -> FieldMap(Ref -> sort)
        self.a1 = {}  # field -> FieldMap((Ref, Int) -> Real)
        self.a1len = {}  # field -> FieldMap(Ref -> Int)
        self.a2 = {}  # field -> FieldMap((Ref, Int, Int) -> Real)
        self.a2rows = {}
        self.a2cols = {}
        self.llen = {}  # field -> z3 function Ref -> Int        (lists are immutable in the kernels)
        self.lelem = {}  # field -> z3 function (Ref, Int) -> Ref
        self.lidx = {}  # field -> z3 function (Ref, Ref) -> Int
        self.lext = {}  # field -> list of (guard(owner), extra elements) for appended lists (Link.create)
        self.touched = set()  # (kind, field, scalar-kind) written so far (frame obligations)

    def copy(self):
        h = Heap(self.tag)
        for k in ("scal", "a1", "a1len", "a2", "a2rows", "a2cols", "llen", "lelem", "lidx", "lext"):
            setattr(h, k, dict(getattr(self, k)))
        h.touched = set(self.touched)
        return h

    # -- scalar fields
    def _scal(self, field, kind):
        key = (field, kind)
        if key not in self.scal:
            f = z3.Function("%s.%s:%s" % (self.tag, field, kind), Ref, _SORTS[kind])
            self.scal[key] = FieldMap(f)
        return self.scal[key]

    def read_scal(self, field, kind, ref):
        return self._scal(field, kind).read(ref)

    def write_scal(self, field, kind, ref, val, cond=True):
        fm = self._scal(field, kind)
        self.touched.add(("scal", field, kind))
        self.scal[(field, kind)] = fm.write(lambda r, ref=ref, cond=cond: conj(cond, ref_eq(r, ref)), lambda r, val=val: val)

    # -- 1-D arrays
    def _a1(self, field):
        if field not in self.a1:
            self.a1[field] = FieldMap(z3.Function("%s.%s[]" % (self.tag, field), Ref, z3.IntSort(), z3.RealSort()))
            self.a1len[field] = FieldMap(z3.Function("%s.len(%s)" % (self.tag, field), Ref, z3.IntSort()))
        return self.a1[field]

    def read_a1(self, field, ref, i):
        return self._a1(field).read(ref, i)

    def len_a1(self, field, ref):
        self._a1(field)
        return self.a1len[field].read(ref)

    def write_a1(self, field, ref, i, val, cond=True):
        """write element i (a term) of ref.field"""
        fm = self._a1(field)
        self.touched.add(("a1", field, None))
        self.a1[field] = fm.write(lambda r, j, ref=ref, i=i, cond=cond: conj(cond, ref_eq(r, ref), j == i), lambda r, j, val=val: val)

    def write_a1_where(self, field, ref, idx_guard, valf, cond=True):
        """write all elements j with idx_guard(j) of ref.field to valf(j)"""
        fm = self._a1(field)
        self.touched.add(("a1", field, None))
        self.a1[field] = fm.write(lambda r, j, ref=ref, cond=cond: conj(cond, ref_eq(r, ref), idx_guard(j)), lambda r, j: valf(j))

    def set_a1(self, field, ref, n, valf):
        """rebind ref.field to a fresh array of length n with contents valf"""
        self._a1(field)
        self.touched.add(("a1", field, None))
        self.touched.add(("a1len", field, None))
        self.a1[field] = self.a1[field].write(lambda r, j, ref=ref: ref_eq(r, ref), lambda r, j: valf(j))
        self.a1len[field] = self.a1len[field].write(lambda r, ref=ref: ref_eq(r, ref), lambda r: n)

    # -- 2-D arrays
    def _a2(self, field):
        if field not in self.a2:
            self.a2[field] = FieldMap(z3.Function("%s.%s[,]" % (self.tag, field), Ref, z3.IntSort(), z3.IntSort(), z3.RealSort()))
            self.a2rows[field] = FieldMap(z3.Function("%s.rows(%s)" % (self.tag, field), Ref, z3.IntSort()))
            self.a2cols[field] = FieldMap(z3.Function("%s.cols(%s)" % (self.tag, field), Ref, z3.IntSort()))
        return self.a2[field]

    def read_a2(self, field, ref, i, j):
        return self._a2(field).read(ref, i, j)

    def rows_a2(self, field, ref):
        self._a2(field)
        return self.a2rows[field].read(ref)

    def cols_a2(self, field, ref):
        self._a2(field)
        return self.a2cols[field].read(ref)

    def write_a2_where(self, field, ref, guard_ij, valf, cond=True, col=None, row=None):
        fm = self._a2(field)
        self.touched.add(("a2", field, None))
        self.a2[field] = fm.write(lambda r, i, j, ref=ref, cond=cond: conj(cond, ref_eq(r, ref), guard_ij(i, j)), lambda r, i, j: valf(i, j))

    def set_a2(self, field, ref, nr, nc, valf):
        """rebind ref.field to a fresh 2-D array"""
        self._a2(field)
        self.touched.add(("a2", field, None))
        self.touched.add(("a2shape", field, None))
        self.a2[field] = self.a2[field].write(lambda r, i, j, ref=ref: ref_eq(r, ref), lambda r, i, j: valf(i, j))
        self.a2rows[field] = self.a2rows[field].write(lambda r, ref=ref: ref_eq(r, ref), lambda r: nr)
        self.a2cols[field] = self.a2cols[field].write(lambda r, ref=ref: ref_eq(r, ref), lambda r: nc)

    # -- lists of objects
    def _list(self, field):
        if field not in self.llen:
            self.llen[field], self.lelem[field], self.lidx[field] = list_funcs(field)

    def list_len(self, field, ref):
        self._list(field)
        return self.llen[field](ref)

    def list_elem(self, field, ref, k):
        self._list(field)
        return self.lelem[field](ref, k)

    def list_idx(self, field, ref, r):
        self._list(field)
        return self.lidx[field](ref, r)

    def list_member(self, field, ref, r):
        i = self.list_idx(field, ref, r)
        return z3.And(0 <= i, i < self.list_len(field, ref), self.list_elem(field, ref, i) == r)


LIST_FUNCS = {}
LIST_ELEM_CLASSES = {}
REF_FIELD_CLASSES = {}  # "h.<field>:ref" -> (classes, maybe_none)


def list_funcs(field):
    if field not in LIST_FUNCS:
        LIST_FUNCS[field] = (z3.Function("len(%s)" % field, Ref, z3.IntSort()), z3.Function("%s[]" % field, Ref, z3.IntSort(), Ref), z3.Function("idx(%s)" % field, Ref, Ref, z3.IntSort()))
    return LIST_FUNCS[field]


_elem_fact_cache = {}
_top_fact_cache = {}


def _elem_facts(t):
    key = t.get_id()
    hit = _elem_fact_cache.get(key)
    if hit is not None and hit[0].eq(t):
        return hit[1]
    facts = []
    if t.num_args() == 2 and t.sort_kind() == z3.Z3_UNINTERPRETED_SORT and t.decl().name().endswith("[]"):
        field = t.decl().name()[:-2]
        if field in LIST_FUNCS and t.decl().eq(LIST_FUNCS[field][1]):
            llen, lelem, lidx = LIST_FUNCS[field]
            owner, k = t.arg(0), t.arg(1)
            body = [lidx(owner, t) == k, t != NONE, alloc(t) <= 0]
            if field in LIST_ELEM_CLASSES:
                body.append(CLASSES.classset_term(t, LIST_ELEM_CLASSES[field]))
            facts = [z3.Implies(z3.And(0 <= k, k < llen(owner)), z3.And(body)), llen(owner) >= 0]
    elif t.num_args() == 1 and t.decl().name() in REF_FIELD_CLASSES:
        classes, maybe = REF_FIELD_CLASSES[t.decl().name()]
        cs = CLASSES.classset_term(t, classes)
        facts = [z3.Or(t == NONE, cs) if maybe else z3.And(t != NONE, cs)]
    _elem_fact_cache[key] = (t, facts, dict(LIST_ELEM_CLASSES))
    return facts


def list_axiom_instances(terms):
    """wf(model) instantiated on every list-element term occurring in `terms`: elements of a list field are pairwise
    distinct (idx is the inverse of elem), not None, of the declared classes and exist in the pre-state; lengths are >= 0"""
    out = {}
    for t in terms:
        key = t.get_id()
        hit = _top_fact_cache.get(key)
        if hit is None or not hit[0].eq(t):
            fs = []
            for x in uninterp_apps(t):
                fs += _elem_facts(x)
            _top_fact_cache[key] = hit = (t, fs)
        for f in hit[1]:
            out[f.get_id()] = f
    return list(out.values())


_apps_cache = {}


def uninterp_apps(t):
    """all sub-terms of t that are applications (>= 1 argument) of uninterpreted functions; memoised per top-level term.
    Uses the C API directly: the Python wrappers are too slow for the number of traversals the lemma engine makes."""
    import z3.z3core as zc

    key = t.get_id()
    hit = _apps_cache.get(key)
    if hit is not None and hit[0].eq(t):
        return hit[1]
    ctxo = t.ctx
    ctx = ctxo.ref()
    seen = set()
    out = []
    stack = [t.as_ast()]
    while stack:
        a = stack.pop()
        i = zc.Z3_get_ast_id(ctx, a)
        if i in seen:
            continue
        seen.add(i)
        if zc.Z3_get_ast_kind(ctx, a) != z3.Z3_APP_AST:
            continue
        app = zc.Z3_to_app(ctx, a)
        n = zc.Z3_get_app_num_args(ctx, app)
        if n > 0:
            d = zc.Z3_get_app_decl(ctx, app)
            if zc.Z3_get_decl_kind(ctx, d) == z3.Z3_OP_UNINTERPRETED:
                out.append(z3.z3._to_expr_ref(a, ctxo))
            for j in range(n):
                stack.append(zc.Z3_get_app_arg(ctx, app, j))
    if len(_apps_cache) > 200000:
        _apps_cache.clear()
    _apps_cache[key] = (t, out)
    return out


class MergedHeapView:
    """Read-only merge of several heaps under mutually exclusive conditions (used when joining loop-body paths)."""

    def __init__(self, branches):
        self.branches = branches  # list of (cond, Heap)

    def _m(self, fn):
        res = None
        for c, h in reversed(self.branches):
            v = fn(h)
            res = v if res is None else ite(c, v, res)
        return res

    def read_scal(self, field, kind, ref):
        return self._m(lambda h: h.read_scal(field, kind, ref))

    def read_a1(self, field, ref, i):
        return self._m(lambda h: h.read_a1(field, ref, i))

    def len_a1(self, field, ref):
        return self._m(lambda h: h.len_a1(field, ref))

    def read_a2(self, field, ref, i, j):
        return self._m(lambda h: h.read_a2(field, ref, i, j))

    def rows_a2(self, field, ref):
        return self._m(lambda h: h.rows_a2(field, ref))

    def cols_a2(self, field, ref):
        return self._m(lambda h: h.cols_a2(field, ref))


# ----------------------------------------------------------------------------------------------- term utilities
def contains(term, sub):
    """does z3 term `term` contain the sub-term `sub`? (C API traversal)"""
    import z3.z3core as zc

    ctx = term.ctx.ref()
    target = sub.get_id()
    seen = set()
    stack = [term.as_ast()]
    while stack:
        a = stack.pop()
        i = zc.Z3_get_ast_id(ctx, a)
        if i == target:
            return True
        if i in seen:
            continue
        seen.add(i)
        if zc.Z3_get_ast_kind(ctx, a) != z3.Z3_APP_AST:
            continue
        app = zc.Z3_to_app(ctx, a)
        for j in range(zc.Z3_get_app_num_args(ctx, app)):
            stack.append(zc.Z3_get_app_arg(ctx, app, j))
    return False


def subst(term, pairs):
    if not is_z3(term):
        return term
    return z3.substitute(term, *pairs)
