"""
pyvc.flow -- structural obligations decided on the AST of the real functions (read from /repo at run time).

These are the frame / protocol / definedness clauses of a contract whose truth does not depend on any input value: they are
statements about every path of the function (a name is bound on every path that reads it, a format string is given as many
arguments as it has fields, a parameter is not overwritten inside a loop, a resource is restored on every exit edge, a call
site passes the argument the callee's contract needs, what unlink() replaces relink() restores).  Each analyzer returns
obligations of kind `structural` with status proved/refuted; a refuted one names the line.
"""
import ast
import re

from . import source


def _ob(function, name, ok, line=None, note="", replay=None):
    d = dict(function=function, name=name, kind="structural", status="proved" if ok else "refuted", seconds=0.0, backend="ast-analysis", line=line, note=note)
    if replay is not None:
        d["replay"] = replay
    return d


def _functions(modname):
    m = source.load(modname)
    out = []
    for name, fi in m.functions.items():
        out.append(fi)
    for (cls, name), fi in m.methods.items():
        out.append(fi)
    return out


# ------------------------------------------------------------------------------------------------ message construction
_SPEC = re.compile(r"%(?:\([^)]*\))?[#0\- +]*(?:\*|\d+)?(?:\.(?:\*|\d+))?[hlL]?([diouxXeEfFgGcrsa%])")


def _n_specs(s):
    return sum(1 for m in _SPEC.finditer(s) if m.group(1) != "%")


def _try_format(node):
    """replay of a format-arity obligation: evaluate the message expression with dummy operands"""
    names = sorted({n.id for n in ast.walk(node) if isinstance(n, ast.Name)})
    env = {n: "X" for n in names}

    class _Any(str):
        def __getattr__(self, a):
            return _Any("X")

        def __getitem__(self, k):
            return _Any("X")

        def __call__(self, *a, **k):
            return _Any("X")

    env = {n: _Any("X") for n in names}
    try:
        eval(compile(ast.Expression(body=node), "<message>", "eval"), {}, env)
        return dict(verdict="holds", detail="message expression evaluates")
    except (TypeError, AttributeError, ValueError, IndexError, KeyError) as e:
        return dict(verdict="violates", detail="building the message `%s` raises %s: %s" % (ast.unparse(node)[:120], type(e).__name__, e), prestate=dict(expression=ast.unparse(node)[:200]))
    except Exception as e:
        return dict(verdict="error", detail="%s: %s" % (type(e).__name__, e))


def message_construction(modname, pid=None):
    """every `'...%s...' % args`, '...'.format(args) builds without TypeError (as many arguments as fields), and .format is
    called on strings (not on an exception object)"""
    out = []
    m = source.load(modname)
    checked = 0
    bad = []
    for node in ast.walk(m.tree):
        if isinstance(node, ast.BinOp) and isinstance(node.op, ast.Mod) and isinstance(node.left, ast.Constant) and isinstance(node.left.value, str):
            n = _n_specs(node.left.value)
            if "%(" in node.left.value:
                continue
            checked += 1
            r = node.right
            if isinstance(r, ast.Tuple):
                if len(r.elts) != n and not any(isinstance(e, ast.Starred) for e in r.elts):
                    bad.append((node, "format string has %d fields but %d arguments" % (n, len(r.elts))))
            elif n != 1 and not isinstance(r, (ast.Name, ast.Call, ast.Attribute, ast.Subscript, ast.Dict)):
                bad.append((node, "format string has %d fields but a single non-tuple argument" % n))
            elif n > 1 and isinstance(r, (ast.Name, ast.Attribute)) and _is_call_arg_followed_by_more(m.tree, node):
                bad.append((node, "format string has %d fields; `%% a, b` binds only the first argument to the string (operator precedence)" % n))
        elif isinstance(node, ast.Call) and isinstance(node.func, ast.Attribute) and node.func.attr == "format":
            v = node.func.value
            if isinstance(v, ast.Constant) and isinstance(v.value, str):
                checked += 1
                fields = re.findall(r"\{(\d*)[^{}]*\}", v.value.replace("{{", "").replace("}}", ""))
                auto = sum(1 for f in fields if f == "")
                idx = [int(f) for f in fields if f != ""]
                need = max([auto] + [i + 1 for i in idx]) if fields else 0
                if need > len(node.args) and not node.keywords and not any(isinstance(a, ast.Starred) for a in node.args):
                    bad.append((node, "format string needs %d positional arguments, %d given" % (need, len(node.args))))
            elif isinstance(v, ast.Call) and isinstance(v.func, ast.Name) and (v.func.id.endswith("Error") or v.func.id in ("Exception",) or v.func.id.startswith("Invalid")):
                checked += 1
                bad.append((node, ".format() is called on an exception object (AttributeError)", dict(verdict="violates", detail="`%s`: exception objects have no .format method, so raising this error raises AttributeError instead" % ast.unparse(node)[:120], prestate=dict(expression=ast.unparse(node)[:200]))))
    fn = "%s:<module>" % modname
    for item in bad:
        node, why = item[0], item[1]
        out.append(_ob(fn, "message-builds@L%d" % node.lineno, False, node.lineno, why, item[2] if len(item) > 2 else _try_format(node)))
    out.append(_ob(fn, "message-construction:%d sites" % checked, True, None, "%d format expressions checked, %d defective" % (checked, len(bad))))
    return out


def _is_call_arg_followed_by_more(tree, binop):
    for n in ast.walk(tree):
        if isinstance(n, ast.Call) and binop in n.args and len(n.args) > 1 and n.args.index(binop) == 0:
            return True
    return False


# ------------------------------------------------------------------------------------------------ definite assignment in handlers
def _assigned_names(stmts):
    out = set()
    for s in stmts:
        for n in ast.walk(s):
            if isinstance(n, ast.Name) and isinstance(n.ctx, ast.Store):
                out.add(n.id)
    return out


def _definitely_before(func, target):
    """names certainly bound when control reaches `target` (a statement in func): parameters plus names assigned by statements
    that precede it on the straight-line spine of its enclosing blocks (loop targets of enclosing loops included)"""
    bound = {a.arg for a in func.args.args + func.args.kwonlyargs}
    if func.args.vararg:
        bound.add(func.args.vararg.arg)
    if func.args.kwarg:
        bound.add(func.args.kwarg.arg)

    def walk(stmts):
        nonlocal bound
        for s in stmts:
            if s is target:
                return True
            inner = []
            for fld in ("body", "orelse", "finalbody"):
                inner.append(getattr(s, fld, []) or [])
            if isinstance(s, ast.Try):
                inner += [h.body for h in s.handlers]
            saved = set(bound)
            if isinstance(s, (ast.For, ast.AsyncFor)):
                bound |= _assigned_names([ast.Assign(targets=[s.target], value=ast.Constant(0))])
            if isinstance(s, ast.With):
                for it in s.items:
                    if it.optional_vars is not None:
                        bound |= _assigned_names([ast.Assign(targets=[it.optional_vars], value=ast.Constant(0))])
            for blk in inner:
                if blk and any(target is x or any(target is y for y in ast.walk(x)) for x in blk):
                    if walk(blk):
                        return True
            bound = saved
            # a simple statement (or a compound one that does not contain the target): only unconditional bindings count
            if isinstance(s, (ast.Assign, ast.AugAssign, ast.AnnAssign, ast.Import, ast.ImportFrom, ast.FunctionDef, ast.ClassDef)):
                bound |= _assigned_names([s])
                if isinstance(s, (ast.Import, ast.ImportFrom)):
                    bound |= {(a.asname or a.name.split(".")[0]) for a in s.names}
                if isinstance(s, (ast.FunctionDef, ast.ClassDef)):
                    bound.add(s.name)
        return False

    walk(func.body)
    return bound


def handler_reads_bound_names(qualname):
    """in every `try: ... except X: handler`, a name read by the handler is bound even if the exception is raised by the
    statement that would have bound it (no UnboundLocalError / stale value from an earlier iteration on the error path)"""
    fi = source.lookup(qualname)
    out = []
    n = 0
    module_names = set(fi.module.imports) | set(fi.module.classes) | set(fi.module.functions) | set(fi.module.globals_const) | set(dir(__builtins__) if not isinstance(__builtins__, dict) else __builtins__)
    for t in ast.walk(fi.node):
        if not isinstance(t, ast.Try):
            continue
        in_try = _assigned_names(t.body)
        before = _definitely_before(fi.node, t)
        for h in t.handlers:
            n += 1
            local = set()
            if h.name:
                local.add(h.name)
            reads = []
            for s in h.body:
                for x in ast.walk(s):
                    if isinstance(x, ast.Name) and isinstance(x.ctx, ast.Load):
                        reads.append(x)
                    elif isinstance(x, ast.Name) and isinstance(x.ctx, ast.Store):
                        local.add(x.id)
            for x in reads:
                if x.id in in_try and x.id not in before and x.id not in local and x.id not in module_names:
                    out.append(_ob(qualname, "handler-name-bound:%s@L%d" % (x.id, x.lineno), False, x.lineno,
                                   "the handler reads `%s`, which is only assigned inside the try block: if the exception is raised before that assignment the name is unbound (or holds the value of an earlier loop iteration)" % x.id))
    out.append(_ob(qualname, "handlers-read-bound-names:%d handlers" % n, True, None, "%d exception handlers checked" % n))
    return out


# ------------------------------------------------------------------------------------------------ loop-invariant parameters
def parameter_not_overwritten_in_loops(qualname, params):
    """a parameter that selects behaviour (e.g. a default aggregation method) must not be assigned inside a loop body: its
    value in iteration k+1 would depend on iteration k (results would depend on the order / set of the other items)"""
    fi = source.lookup(qualname)
    out = []
    for loop in [n for n in ast.walk(fi.node) if isinstance(n, (ast.For, ast.While))]:
        for s in loop.body:
            for x in ast.walk(s):
                if isinstance(x, ast.Name) and isinstance(x.ctx, ast.Store) and x.id in params:
                    out.append(_ob(qualname, "parameter-loop-invariant:%s@L%d" % (x.id, x.lineno), False, x.lineno,
                                   "parameter `%s` is overwritten inside the loop at line %d: the value chosen for one item is carried over to the following items" % (x.id, loop.lineno)))
    seen = set()
    uniq = []
    for o in out:
        if o["name"] not in seen:
            seen.add(o["name"])
            uniq.append(o)
    uniq.append(_ob(qualname, "parameters-loop-invariant:%s" % ",".join(params), True, None, "checked assignments to %s in all loops" % (params,)))
    return uniq


# ------------------------------------------------------------------------------------------------ aliasing then in-place update
def no_inplace_update_of_borrowed_arrays(qualname):
    """`A[k] = B[j]` stores a reference to B's array; a later `A[k] += ...` would then modify B's array too.  Every container
    element that is updated in place must have been bound to a fresh array (arithmetic result, .copy(), np.zeros...)"""
    fi = source.lookup(qualname)
    out = []
    borrowed = {}  # container name -> list of (line, source container)
    fresh_calls = ("copy", "zeros", "ones", "array", "empty", "full", "zeros_like", "ones_like", "dcp", "deepcopy")
    # innermost enclosing for-loop of every statement
    loop_of = {}

    def _mark(node, loop):
        for child in ast.iter_child_nodes(node):
            inner = child if isinstance(child, ast.For) else loop
            if isinstance(child, ast.stmt) and loop is not None:
                loop_of[child] = loop
            _mark(child, inner)

    _mark(fi.node, None)
    # local names that are (on some path) only another name for an array held by an object: `vals = comp.vals`
    alias = {}
    for s in ast.walk(fi.node):
        if isinstance(s, ast.Assign) and len(s.targets) == 1 and isinstance(s.targets[0], ast.Name) and isinstance(s.value, ast.Attribute):
            alias.setdefault(s.targets[0].id, []).append((s.lineno, ast.unparse(s.value)))
    for s in ast.walk(fi.node):
        if isinstance(s, ast.Assign) and len(s.targets) == 1 and isinstance(s.targets[0], ast.Subscript) and isinstance(s.targets[0].value, ast.Name):
            v = s.value
            # (a bare local name is a hand-over of a freshly built array -- unless that name is itself an alias of an attribute;
            # an element of another container stays shared)
            is_borrow = isinstance(v, ast.Subscript) and isinstance(v.value, ast.Name)
            if is_borrow:
                src = v.value.id
                borrowed.setdefault(s.targets[0].value.id, []).append((s.lineno, src))
            elif isinstance(v, ast.Name) and v.id in alias:
                borrowed.setdefault(s.targets[0].value.id, []).append((s.lineno, alias[v.id][0][1]))
            elif isinstance(v, ast.Name) and s in loop_of and not any(isinstance(x, ast.Name) and x.id == v.id and isinstance(x.ctx, ast.Store) for b in loop_of[s].body for x in ast.walk(b)):
                # a local array handed over inside a loop must be built inside that loop: one bound outside is the SAME array in
                # every iteration, so the container element aliases a scratch array that later iterations overwrite
                borrowed.setdefault(s.targets[0].value.id, []).append((s.lineno, "%s (bound outside the loop at line %d)" % (v.id, loop_of[s].lineno)))
            elif isinstance(v, ast.Attribute):
                borrowed.setdefault(s.targets[0].value.id, []).append((s.lineno, ast.unparse(v)))
    # parent links, to look for a dominating fresh store `A[k] = <new array>` before an in-place update of `A[k]`
    parent = {}
    for node in ast.walk(fi.node):
        for child in ast.iter_child_nodes(node):
            parent[child] = node

    def _is_fresh(v):
        if isinstance(v, ast.Call):
            f = v.func
            return (f.attr if isinstance(f, ast.Attribute) else getattr(f, "id", "")) in fresh_calls
        return isinstance(v, (ast.BinOp, ast.UnaryOp, ast.Constant, ast.List, ast.ListComp))

    def _dominating_fresh_store(aug):
        """line of a store `A[k] = <fresh>` (same container, same key text) that precedes the update in its own block or in an
        enclosing block (such a statement is executed before the update on every path), provided no loop that rebinds a name of
        the key lies in between; None if there is none"""
        key = ast.unparse(aug.target)
        key_names = {x.id for x in ast.walk(aug.target.slice) if isinstance(x, ast.Name)}
        node = aug
        while node in parent and not isinstance(node, (ast.FunctionDef, ast.AsyncFunctionDef, ast.Lambda)):
            par = parent[node]
            for field in ("body", "orelse", "finalbody"):
                block = getattr(par, field, None)
                if isinstance(block, list) and node in block:
                    for st in reversed(block[: block.index(node)]):
                        if isinstance(st, ast.Assign) and len(st.targets) == 1 and ast.unparse(st.targets[0]) == key:
                            return st.lineno if _is_fresh(st.value) else None
            if isinstance(par, ast.For) and key_names & {x.id for x in ast.walk(par.target) if isinstance(x, ast.Name)}:
                return None
            node = par
        return None

    def _key_tag(slice_node):
        """first element of a tuple key when it is a string constant (keys with different tags cannot denote the same element);
        a plain name is looked through when it has exactly one assignment in the function"""
        k = slice_node
        if isinstance(k, ast.Name):
            defs = [a.value for a in ast.walk(fi.node) if isinstance(a, ast.Assign) and len(a.targets) == 1 and isinstance(a.targets[0], ast.Name) and a.targets[0].id == k.id]
            if len(defs) != 1:
                return None
            k = defs[0]
        if isinstance(k, ast.Tuple) and k.elts and isinstance(k.elts[0], ast.Constant) and isinstance(k.elts[0].value, str):
            return k.elts[0].value
        return None

    borrow_tags = {}
    for st in ast.walk(fi.node):
        if isinstance(st, ast.Assign) and len(st.targets) == 1 and isinstance(st.targets[0], ast.Subscript) and isinstance(st.targets[0].value, ast.Name):
            borrow_tags[(st.targets[0].value.id, st.lineno)] = _key_tag(st.targets[0].slice)

    n = 0
    for s in ast.walk(fi.node):
        if isinstance(s, ast.AugAssign) and isinstance(s.target, ast.Subscript) and isinstance(s.target.value, ast.Name):
            n += 1
            c = s.target.value.id
            dom = _dominating_fresh_store(s)
            tag = _key_tag(s.target.slice)
            for line, src in borrowed.get(c, []):
                if dom is not None and not (dom < line < s.lineno):
                    continue  # the element updated here was bound to a new array just before, on every path
                if tag is not None and borrow_tags.get((c, line)) is not None and borrow_tags[(c, line)] != tag:
                    continue  # tuple keys with different constant first elements: not the same element
                if src != c:
                    out.append(_ob(qualname, "inplace-on-borrowed:%s@L%d" % (c, s.lineno), False, s.lineno,
                                   "`%s[...]` is updated in place at line %d but was bound to an element of `%s` at line %d without a copy: the update also changes `%s`" % (c, s.lineno, src, line, src)))
    out.append(_ob(qualname, "inplace-updates-on-owned-arrays:%d sites" % n, True, None, "%d in-place element updates checked" % n))
    return out


# ------------------------------------------------------------------------------------------------ unlink / relink symmetry
def unlink_relink_symmetric(modname, classes):
    """every attribute that unlink() replaces by ids is restored by relink(), and nothing else is touched"""
    m = source.load(modname)
    out = []
    for cls in classes:
        u = m.methods.get((cls, "unlink"))
        r = m.methods.get((cls, "relink"))
        if u is None or r is None:
            continue

        def attrs(fi, skip_none=False):
            a = set()
            for s in ast.walk(fi.node):
                if isinstance(s, ast.Assign):
                    for t in s.targets:
                        if isinstance(t, ast.Attribute) and isinstance(t.value, ast.Name) and t.value.id == "self":
                            if skip_none and isinstance(s.value, ast.Constant) and s.value.value is None:
                                continue
                            a.add(t.attr)
                        if isinstance(t, ast.Subscript) and isinstance(t.value, ast.Attribute) and isinstance(t.value.value, ast.Name) and t.value.value.id == "self":
                            a.add(t.value.attr)
            return a

        ua, ra = attrs(u), attrs(r)
        # caches dropped on unlink (assigned None) may be rebuilt or left to be rebuilt lazily
        dropped = attrs(u) - attrs(u, skip_none=True)
        miss = (ua - dropped) - ra
        extra = ra - ua
        q = "%s:%s.unlink/relink" % (modname, cls)
        out.append(_ob(q, "relink-restores-what-unlink-replaces:%s" % cls, not miss and not (extra - dropped), r.lineno,
                       "unlink replaces %s, relink restores %s%s" % (sorted(ua), sorted(ra), ("; NOT restored: %s" % sorted(miss)) if miss else "")))
        # super() chain: both call the base implementation or neither
        def calls_base(fi):
            return any(isinstance(c, ast.Call) and isinstance(c.func, ast.Attribute) and c.func.attr == fi.name and isinstance(c.func.value, (ast.Name, ast.Call)) and not (isinstance(c.func.value, ast.Name) and c.func.value.id in ("self", "obj", "pop", "x")) for c in ast.walk(fi.node))

        out.append(_ob(q, "unlink-and-relink-both-chain-to-base:%s" % cls, calls_base(u) == calls_base(r), r.lineno, "unlink chains to base: %s, relink chains to base: %s" % (calls_base(u), calls_base(r))))
    return out


# ------------------------------------------------------------------------------------------------ call-site arguments
def callsites_pass(qualname, method, keyword, value_name, receiver_hint=None):
    """every call `<x>.method(...)` inside the function passes keyword=value_name (the callee's contract needs the caller's value)"""
    fi = source.lookup(qualname)
    out = []
    n = 0
    for c in ast.walk(fi.node):
        if isinstance(c, ast.Call) and isinstance(c.func, ast.Attribute) and c.func.attr == method:
            n += 1
            ok = any(k.arg == keyword and isinstance(k.value, ast.Name) and k.value.id == value_name for k in c.keywords) or any(isinstance(a, ast.Name) and a.id == value_name for a in c.args)
            out.append(_ob(qualname, "callsite-passes-%s@L%d" % (keyword, c.lineno), ok, c.lineno, "call `%s`" % ast.unparse(c)[:100]))
    if n == 0:
        out.append(_ob(qualname, "callsite-passes-%s:none-found" % keyword, False, fi.lineno, "no call to .%s() found" % method))
    return out


# ------------------------------------------------------------------------------------------------ guards
def reads_guarded_by(qualname, name, guard):
    """every statement that reads `name` is inside `if <guard>:` (dominance on the AST), so the guarded effect cannot happen
    when the guard is false"""
    fi = source.lookup(qualname)
    out = []
    n = 0

    def visit(stmts, guarded):
        nonlocal n
        for s in stmts:
            if isinstance(s, ast.If):
                g = guarded or (isinstance(s.test, ast.Name) and s.test.id == guard)
                reads_here = [x for x in ast.walk(s.test) if isinstance(x, ast.Name) and x.id == name]
                if reads_here:
                    n += 1
                    out.append(_ob(qualname, "guarded:%s@L%d" % (name, s.lineno), guarded, s.lineno, "reads `%s` in a condition" % name))
                visit(s.body, g)
                visit(s.orelse, guarded)
            elif isinstance(s, (ast.For, ast.While, ast.With, ast.Try)):
                hdr = [getattr(s, "iter", None), getattr(s, "test", None)]
                for h in hdr:
                    if h is not None and any(isinstance(x, ast.Name) and x.id == name and isinstance(x.ctx, ast.Load) for x in ast.walk(h)):
                        n += 1
                        out.append(_ob(qualname, "guarded:%s@L%d" % (name, s.lineno), guarded, s.lineno, "reads `%s` in a loop header" % name))
                for fld in ("body", "orelse", "finalbody"):
                    visit(getattr(s, fld, []) or [], guarded)
                if isinstance(s, ast.Try):
                    for h in s.handlers:
                        visit(h.body, guarded)
            else:
                if any(isinstance(x, ast.Name) and x.id == name and isinstance(x.ctx, ast.Load) for x in ast.walk(s)):
                    n += 1
                    out.append(_ob(qualname, "guarded:%s@L%d" % (name, s.lineno), guarded, s.lineno, "statement `%s`" % ast.unparse(s)[:80]))

    visit(fi.body(), False)
    if n == 0:
        out.append(_ob(qualname, "guarded:%s:no-reads" % name, False, fi.lineno, "no read of `%s` found" % name))
    return out


def assignment_is(qualname, name, expected_expr, note=""):
    """the (single) assignment to `name` in the function has exactly the expected expression (compared as ASTs)"""
    fi = source.lookup(qualname)
    assigns = [s for s in ast.walk(fi.node) if isinstance(s, ast.Assign) and len(s.targets) == 1 and isinstance(s.targets[0], ast.Name) and s.targets[0].id == name]
    want = ast.dump(ast.parse(expected_expr, mode="eval").body)
    ok = len(assigns) == 1 and ast.dump(assigns[0].value) == want
    return [_ob(qualname, "definition-of:%s" % name, ok, assigns[0].lineno if assigns else fi.lineno, "expected `%s`; found %s. %s" % (expected_expr, [ast.unparse(a.value) for a in assigns], note))]


# ------------------------------------------------------------------------------------------------ restore on every exit
def restored_in_finally(qualname, target_expr, saved_name):
    """`target = <something>` (a temporary change of caller-visible state) is followed by a try whose `finally` assigns the
    saved value back, and nothing that can raise stands between the change and the try"""
    fi = source.lookup(qualname)
    body = fi.body()
    out = []

    def is_target(t):
        return ast.unparse(t) == target_expr

    idx_change = None
    for i, s in enumerate(body):
        if isinstance(s, ast.Assign) and any(is_target(t) for t in s.targets):
            idx_change = i
            break
    if idx_change is None:
        return [_ob(qualname, "restores:%s" % target_expr, False, fi.lineno, "no top-level assignment to %s found" % target_expr)]
    saved_ok = any(isinstance(s, ast.Assign) and isinstance(s.targets[0], ast.Name) and s.targets[0].id == saved_name and ast.unparse(s.value) == target_expr for s in body[:idx_change])
    out.append(_ob(qualname, "saves-original:%s" % target_expr, saved_ok, body[idx_change].lineno, "`%s = %s` before the change" % (saved_name, target_expr)))
    nxt = body[idx_change + 1] if idx_change + 1 < len(body) else None
    ok_try = isinstance(nxt, ast.Try) and any(isinstance(s, ast.Assign) and any(is_target(t) for t in s.targets) and isinstance(s.value, ast.Name) and s.value.id == saved_name for s in nxt.finalbody)
    out.append(_ob(qualname, "restored-on-every-exit:%s" % target_expr, ok_try, body[idx_change].lineno,
                   "the statement right after the change must be a try whose finally executes `%s = %s` (so every exception at any evaluation restores it)" % (target_expr, saved_name)))
    if isinstance(nxt, ast.Try):
        after = [s for s in body[idx_change + 2:] if any(is_target(t) for s2 in ast.walk(s) if isinstance(s2, ast.Assign) for t in s2.targets)]
        out.append(_ob(qualname, "not-changed-again-after-restore:%s" % target_expr, not after, nxt.lineno, "no further assignment after the try/finally"))
    return out


# ------------------------------------------------------------------------------------------------ frame: receiver is read-only
def receiver_not_mutated(qualname, mutators=("sample", "update_outcomes", "insert", "remove", "append", "pop", "clear", "update")):
    """frame clause `modifies` excludes everything reachable from self: no store to an attribute or element of self (or of an
    object taken from a collection of self), and no call of a mutating method on such an object.  Fresh copies
    (sc.dcp(self), self.copy(), copy.deepcopy) and what is reached from them may be changed freely."""
    fi = source.lookup(qualname)
    out = []
    tainted = {"self"}  # names that denote self or something reached from self without a copy
    fresh = set()

    def rooted(node):
        """does the expression denote an object reached from a tainted name (attribute / subscript / .values() / .items())?"""
        while True:
            if isinstance(node, ast.Name):
                return node.id in tainted
            if isinstance(node, ast.Attribute):
                node = node.value
            elif isinstance(node, ast.Subscript):
                node = node.value
            elif isinstance(node, ast.Call) and isinstance(node.func, ast.Attribute) and node.func.attr in ("values", "items", "keys"):
                node = node.func.value
            else:
                return False

    def is_copy(node):
        return isinstance(node, ast.Call) and ((isinstance(node.func, ast.Attribute) and node.func.attr in ("dcp", "copy", "deepcopy")) or (isinstance(node.func, ast.Name) and node.func.id in ("dcp", "deepcopy")))

    n = 0
    for s in ast.walk(fi.node):
        if isinstance(s, ast.Assign) and len(s.targets) == 1 and isinstance(s.targets[0], ast.Name):
            if is_copy(s.value):
                fresh.add(s.targets[0].id)
                tainted.discard(s.targets[0].id)
            elif rooted(s.value) and not isinstance(s.value, ast.Call):
                tainted.add(s.targets[0].id)
        elif isinstance(s, (ast.For,)):
            if rooted(s.iter):
                for x in ast.walk(s.target):
                    if isinstance(x, ast.Name):
                        tainted.add(x.id)
    for s in ast.walk(fi.node):
        if isinstance(s, (ast.Assign, ast.AugAssign)):
            targets = s.targets if isinstance(s, ast.Assign) else [s.target]
            for t in targets:
                if isinstance(t, (ast.Attribute, ast.Subscript)) and rooted(t):
                    n += 1
                    out.append(_ob(qualname, "receiver-read-only@L%d" % s.lineno, False, s.lineno, "`%s` stores into an object reached from self" % ast.unparse(s)[:90]))
        elif isinstance(s, ast.Call) and isinstance(s.func, ast.Attribute) and s.func.attr in mutators and rooted(s.func.value):
            out.append(_ob(qualname, "receiver-read-only@L%d" % s.lineno, False, s.lineno, "`%s` calls a mutating method on an object reached from self (not from the fresh copy)" % ast.unparse(s)[:90]))
    out.append(_ob(qualname, "receiver-read-only:frame", True, None, "stores and mutating calls checked; fresh copies: %s" % sorted(fresh)))
    return out


# ------------------------------------------------------------------------------------------------ further pattern clauses
def attribute_assigned_from(qualname, attr, expected_expr, note=""):
    """`self.<attr> = <expected expression>` is the only assignment to that attribute in the function (ownership on construction)"""
    fi = source.lookup(qualname)
    assigns = [s for s in ast.walk(fi.node) if isinstance(s, ast.Assign) and any(isinstance(t, ast.Attribute) and isinstance(t.value, ast.Name) and t.value.id == "self" and t.attr == attr for t in s.targets)]
    want = ast.dump(ast.parse(expected_expr, mode="eval").body)
    ok = len(assigns) == 1 and ast.dump(assigns[0].value) == want
    return [_ob(qualname, "stores-own-copy:self.%s" % attr, ok, assigns[0].lineno if assigns else fi.lineno, "expected `self.%s = %s`; found %s. %s" % (attr, expected_expr, [ast.unparse(a.value) for a in assigns], note))]


def call_present_after(qualname, call_text, after_kind="Try", note=""):
    """a top-level statement `<call_text>` occurs in the function body after the (last) top-level statement of the given kind"""
    fi = source.lookup(qualname)
    body = fi.body()
    idx = max([i for i, s in enumerate(body) if type(s).__name__ == after_kind] or [-1])
    want = ast.dump(ast.parse(call_text, mode="eval").body)
    found = [s for s in body[idx + 1:] if isinstance(s, ast.Expr) and ast.dump(s.value) == want]
    return [_ob(qualname, "calls:%s" % call_text[:50], bool(found) and idx >= 0, found[0].lineno if found else fi.lineno, "statement `%s` after the try/finally. %s" % (call_text, note))]


def augassign_divisor_matches_generator(qualname, target="vals"):
    """an average is a sum over a collection divided by the size of THAT collection:  `t = sum(... for x in C)` directly
    followed by `t /= len(D)` requires D to be C"""
    fi = source.lookup(qualname)
    out = []
    n = 0
    for node in ast.walk(fi.node):
        body = getattr(node, "body", None)
        if not isinstance(body, list):
            continue
        for blk in (body, getattr(node, "orelse", []) or []):
            for a, b in zip(blk, blk[1:]):
                if (isinstance(a, ast.Assign) and len(a.targets) == 1 and isinstance(a.targets[0], ast.Name) and a.targets[0].id == target and isinstance(a.value, ast.Call) and isinstance(a.value.func, ast.Name) and a.value.func.id == "sum"
                        and a.value.args and isinstance(a.value.args[0], ast.GeneratorExp) and isinstance(b, ast.AugAssign) and isinstance(b.op, ast.Div) and isinstance(b.target, ast.Name) and b.target.id == target
                        and isinstance(b.value, ast.Call) and isinstance(b.value.func, ast.Name) and b.value.func.id == "len"):
                    n += 1
                    coll = ast.unparse(a.value.args[0].generators[0].iter)
                    div = ast.unparse(b.value.args[0])
                    out.append(_ob(qualname, "average-divides-by-its-own-parts@L%d" % b.lineno, coll == div, b.lineno, "sum over `%s` divided by len(`%s`)" % (coll, div)))
    if n == 0:
        out.append(_ob(qualname, "average-divides-by-its-own-parts:none-found", False, fi.lineno, "no `x = sum(... for .. in C); x /= len(C)` pattern found"))
    return out


def self_call_sequence(qualname, block, expected, note=""):
    """the `self.<method>()` statements of one block of the function, in order, are exactly `expected`.  block: "while" = body of the
    (single) while loop, "if:<test text>" = body of the if with that test, "top" = the function's own statement list"""
    fi = source.lookup(qualname)
    if block == "top":
        stmts = fi.body()
    elif block == "while":
        loops = [n for n in ast.walk(fi.node) if isinstance(n, ast.While)]
        stmts = loops[0].body if len(loops) == 1 else None
    else:
        test = block.split(":", 1)[1]
        ifs = [n for n in ast.walk(fi.node) if isinstance(n, ast.If) and ast.unparse(n.test) == test]
        stmts = ifs[0].body if len(ifs) == 1 else None
    if stmts is None:
        return [_ob(qualname, "call-order:%s" % block, False, fi.lineno, "block %s not found exactly once" % block)]
    calls = [s.value.func.attr for s in stmts if isinstance(s, ast.Expr) and isinstance(s.value, ast.Call) and isinstance(s.value.func, ast.Attribute)
             and isinstance(s.value.func.value, ast.Name) and s.value.func.value.id == "self"]
    return [_ob(qualname, "call-order:%s" % block, calls == list(expected), stmts[0].lineno if stmts else fi.lineno, "expected self-calls %s, found %s. %s" % (list(expected), calls, note))]


def dependency_edges(qualname, expected_edges, order_assignments):
    """the dependency graphs handed to the (external) topological sort have their edges pointing from the prerequisite to the
    dependant -- every `G.add_edge(u, v)` call of the function is one of `expected_edges` (source text of (u, v)) and each is present --
    and each execution order is taken from `topological_sort(G)` (source text of the right-hand side must mention it)"""
    fi = source.lookup(qualname)
    found = []
    for n in ast.walk(fi.node):
        if isinstance(n, ast.Call) and isinstance(n.func, ast.Attribute) and n.func.attr == "add_edge" and len(n.args) == 2:
            found.append(((ast.unparse(n.args[0]), ast.unparse(n.args[1])), n.lineno))
    out = []
    for (u, v), line in found:
        out.append(_ob(qualname, "edge-from-prerequisite-to-dependant@L%d" % line, (u, v) in expected_edges, line, "G.add_edge(%s, %s): expected one of %s" % (u, v, expected_edges)))
    for e in expected_edges:
        if e not in [f for f, _ in found]:
            out.append(_ob(qualname, "edge-present:%s->%s" % e, False, fi.lineno, "no G.add_edge(%s, %s) in the function" % e))
    for key in order_assignments:
        rhs = [ast.unparse(s.value) for s in ast.walk(fi.node) if isinstance(s, ast.Assign) and len(s.targets) == 1 and ast.unparse(s.targets[0]).replace('"', "'") == "exec_order['%s']" % key]
        ok = len(rhs) == 1 and "topological_sort(G)" in rhs[0]
        out.append(_ob(qualname, "order-is-a-topological-sort:%s" % key, ok, fi.lineno, "exec_order['%s'] = %s" % (key, rhs)))
    return out


def no_return_inside_loops(qualname):
    """the function's result is returned after its loops have run to completion: no `return` statement inside a for / while body
    (a function that accumulates over all items -- e.g. a penalty over all constrained years -- must not leave after the first one)"""
    fi = source.lookup(qualname)
    bad = []
    for loop in ast.walk(fi.node):
        if isinstance(loop, (ast.For, ast.While)):
            for n in ast.walk(loop):
                if isinstance(n, ast.Return):
                    bad.append(n.lineno)
    has_top = any(isinstance(s, ast.Return) for s in fi.body())
    return [_ob(qualname, "returns-after-the-loop", not bad and has_top, bad[0] if bad else fi.lineno, "return statements inside loops at lines %s; top-level return present: %s" % (sorted(set(bad)), has_top))]


def loop_variables_not_read_after_loop(qualname):
    """a per-item check stays per item: no statement after a `for` loop (in the same block) reads that loop's target variable, unless
    it is assigned again first.  (Reading the stale variable of a finished loop applies a check to the LAST item only.)"""
    fi = source.lookup(qualname)
    out = []
    n = 0

    def targets(t):
        return [x.id for x in ast.walk(t) if isinstance(x, ast.Name)]

    def scan(stmts):
        nonlocal n
        for i, st in enumerate(stmts):
            if isinstance(st, ast.For):
                n += 1
                for var in targets(st.target):
                    # later statements of the same block, in order, until the variable is rebound
                    for later in stmts[i + 1:]:
                        rebinds = any(isinstance(x, ast.Name) and x.id == var and isinstance(x.ctx, ast.Store) for x in ast.walk(later))
                        reads = [x for x in ast.walk(later) if isinstance(x, ast.Name) and x.id == var and isinstance(x.ctx, ast.Load)]
                        if reads and not (isinstance(later, (ast.For, ast.comprehension)) and var in targets(getattr(later, "target", ast.Name(id="", ctx=ast.Load())))):
                            # a read that comes before any rebinding inside `later`
                            first_store = min([x.lineno for x in ast.walk(later) if isinstance(x, ast.Name) and x.id == var and isinstance(x.ctx, ast.Store)] or [10 ** 9])
                            stale = [x for x in reads if x.lineno < first_store or (x.lineno == first_store and not rebinds)]
                            if stale:
                                out.append(_ob(qualname, "loop-variable-read-after-its-loop:%s@L%d" % (var, stale[0].lineno), False, stale[0].lineno,
                                               "`%s` is the target of the loop at line %d and is read at line %d after the loop has finished" % (var, st.lineno, stale[0].lineno)))
                                break
                        if rebinds:
                            break
            for blk in ("body", "orelse", "finalbody", "handlers"):
                sub = getattr(st, blk, None)
                if isinstance(sub, list):
                    if blk == "handlers":
                        for h in sub:
                            scan(h.body)
                    else:
                        scan(sub)

    scan(fi.body())
    out.append(_ob(qualname, "per-item-checks-stay-inside-their-loops:%d loops" % n, True, None, "%d for-loops examined" % n))
    return out


_DICT_ATTRS = set(dir(dict)) | {"sort", "sorted", "rename", "insert", "make", "findkeys", "copy", "enumkeys", "enumvals", "enumitems", "append", "promote", "valind", "filter", "filtervals", "reversed", "reverse", "export", "to_OD", "makefrom", "map", "disp", "dict_keys", "findbykey", "findbyval", "filterkeys", "enumvalues", "sortkeys"}
_LIST_ATTRS = set(dir(list))


def no_attribute_of_plain_container(qualname):
    """a name whose most recent binding (in source order) is a fresh dict / odict / list is not asked for an attribute those containers
    do not have (e.g. `ts = sc.odict() ... ts.units` in an error message: AttributeError instead of the intended error)"""
    fi = source.lookup(qualname)
    binds = {}  # name -> list of (line, kind)

    def add(name, line, kind):
        binds.setdefault(name, []).append((line, kind))

    for s in ast.walk(fi.node):
        if isinstance(s, ast.Assign):
            v = s.value
            k = "other"
            if isinstance(v, ast.Dict) or (isinstance(v, ast.Call) and ast.unparse(v.func) in ("dict", "sc.odict", "odict", "OrderedDict") and not v.args and not v.keywords):
                k = "dict"
            elif isinstance(v, ast.List) or (isinstance(v, ast.Call) and ast.unparse(v.func) == "list" and not v.args):
                k = "list"
            for t in s.targets:
                if isinstance(t, ast.Name):
                    add(t.id, s.lineno, k)
                else:
                    for x in ast.walk(t):
                        if isinstance(x, ast.Name) and isinstance(x.ctx, ast.Store):
                            add(x.id, s.lineno, "other")
        elif isinstance(s, (ast.For, ast.comprehension)):
            for x in ast.walk(s.target):
                if isinstance(x, ast.Name):
                    add(x.id, getattr(s, "lineno", getattr(s.target, "lineno", 0)), "other")
        elif isinstance(s, (ast.AugAssign, ast.AnnAssign)) and isinstance(s.target, ast.Name):
            add(s.target.id, s.lineno, "other")
        elif isinstance(s, ast.arg):
            add(s.arg, fi.lineno, "other")
        elif isinstance(s, ast.With):
            for it_ in s.items:
                if it_.optional_vars is not None:
                    for x in ast.walk(it_.optional_vars):
                        if isinstance(x, ast.Name):
                            add(x.id, s.lineno, "other")
        elif isinstance(s, ast.ExceptHandler) and s.name:
            add(s.name, s.lineno, "other")
        elif isinstance(s, ast.NamedExpr) and isinstance(s.target, ast.Name):
            add(s.target.id, s.lineno, "other")
    out = []
    n = 0
    for a in ast.walk(fi.node):
        if isinstance(a, ast.Attribute) and isinstance(a.value, ast.Name) and isinstance(a.ctx, ast.Load):
            prior = [b for b in binds.get(a.value.id, []) if b[0] < a.lineno]
            if not prior:
                continue
            line, kind = max(prior)
            if kind == "dict":
                n += 1
                if a.attr not in _DICT_ATTRS:
                    out.append(_ob(qualname, "attribute-of-plain-dict:%s.%s@L%d" % (a.value.id, a.attr, a.lineno), False, a.lineno, "`%s` was bound to a fresh dict / odict at line %d; `.%s` raises AttributeError" % (a.value.id, line, a.attr)))
            elif kind == "list":
                n += 1
                if a.attr not in _LIST_ATTRS:
                    out.append(_ob(qualname, "attribute-of-plain-list:%s.%s@L%d" % (a.value.id, a.attr, a.lineno), False, a.lineno, "`%s` was bound to a fresh list at line %d; `.%s` raises AttributeError" % (a.value.id, line, a.attr)))
    out.append(_ob(qualname, "container-attributes-exist:%d reads" % n, True, None, "%d attribute reads on names bound to fresh containers" % n))
    return out


def no_mutation_through_alias(qualname, readonly_roots=None):
    """a local name that is (on some path) just another name for an array or container held by an object -- `x = obj.attr` or
    `x = obj.attr[k]` -- must not be updated in place (`x += ...`, `x[...] = ...`, `x[...] += ...`): that would change the object.
    `readonly_roots`: only attributes reached from these parameter names count (default: every attribute chain)"""
    fi = source.lookup(qualname)
    out = []
    alias = {}
    for s in ast.walk(fi.node):
        if isinstance(s, ast.Assign) and len(s.targets) == 1 and isinstance(s.targets[0], ast.Name):
            v = s.value
            base = v.value if isinstance(v, ast.Subscript) else v
            if isinstance(base, ast.Attribute):
                root = base
                while isinstance(root, (ast.Attribute, ast.Subscript)):
                    root = root.value
                if readonly_roots is None or (isinstance(root, ast.Name) and root.id in readonly_roots):
                    alias.setdefault(s.targets[0].id, []).append((s.lineno, ast.unparse(v)))
    n = 0
    for s in ast.walk(fi.node):
        tgt = None
        if isinstance(s, ast.AugAssign):
            tgt = s.target
        elif isinstance(s, ast.Assign) and len(s.targets) == 1 and isinstance(s.targets[0], ast.Subscript):
            tgt = s.targets[0]
        if tgt is None:
            continue
        name = tgt.id if isinstance(tgt, ast.Name) else (tgt.value.id if isinstance(tgt, ast.Subscript) and isinstance(tgt.value, ast.Name) else None)
        if name is None or name not in alias:
            continue
        if isinstance(tgt, ast.Name):
            # `x += ...` on a bare name updates in place only when x is an array (for str / float it rebinds the name): counted
            # only for attributes that hold arrays in this code base
            if not isinstance(s.op, (ast.Add, ast.Sub, ast.Mult, ast.Div)) or not any(src.split("[")[0].split(".")[-1] in ("vals", "_vals", "t", "tvec", "outflow") for _, src in alias[name]):
                continue
        n += 1
        line, src = alias[name][0]
        out.append(_ob(qualname, "inplace-through-alias:%s@L%d" % (name, s.lineno), False, s.lineno,
                       "`%s` is bound to `%s` at line %d (no copy) and updated in place at line %d: the update changes the object it came from" % (name, src, line, s.lineno)))
    out.append(_ob(qualname, "no-inplace-update-through-aliases:%d aliases" % len(alias), True, None, "%d local aliases of object attributes checked" % len(alias)))
    return out


MUTATORS = ("append", "extend", "insert", "remove", "pop", "popitem", "update", "clear", "sort", "reverse", "fill", "setdefault", "rename", "remove_before", "remove_after", "remove_between",
            "insert_pop", "remove_pop", "add_pop", "rename_pop", "load_calibration", "set_initialization", "scale_alloc", "smooth", "__setitem__", "resize", "put", "itemset")


def inputs_only_read(qualname, roots):
    """the function never writes through its inputs `roots` (parameter names): no assignment / deletion whose target is an attribute or
    element reached from a root or from a local alias of something reached from a root, and no call of a known mutating method on
    such an object.  An alias is a local name whose nearest enclosing / preceding binding (assignment, for-target, comprehension
    target) is an attribute / element / get_*() / values() / items() chain starting at a root or at another alias; the results of
    other calls -- copy(), dcp(), interpolate(), constructors, arithmetic -- are new objects.  A root rebound to a copy of itself by
    a top-level statement (`x = sc.dcp(x)`) is no longer a root."""
    fi = source.lookup(qualname)
    params = {a.arg for a in fi.node.args.args + fi.node.args.kwonlyargs}
    roots = set(r for r in roots if r in params)
    out = []
    if not roots:
        return out
    for st in fi.body():
        if isinstance(st, ast.Assign) and len(st.targets) == 1 and isinstance(st.targets[0], ast.Name) and st.targets[0].id in roots and isinstance(st.value, ast.Call):
            f = st.value.func
            if (f.attr if isinstance(f, ast.Attribute) else getattr(f, "id", "")) in ("dcp", "deepcopy", "copy"):
                roots.discard(st.targets[0].id)
    parent = {}
    for node in ast.walk(fi.node):
        for child in ast.iter_child_nodes(node):
            parent[child] = node

    def chain_root(e):
        """(bottom expression of an attribute / element / accessor chain, whether the chain has at least one step)"""
        steps = 0
        while True:
            if isinstance(e, (ast.Attribute, ast.Subscript)):
                e, steps = e.value, steps + 1
            elif isinstance(e, ast.Call) and isinstance(e.func, ast.Attribute) and (e.func.attr.startswith("get_") or e.func.attr in ("values", "items", "keys", "all_pars")):
                e, steps = e.func.value, steps + 1
            elif isinstance(e, ast.Call) and isinstance(e.func, ast.Name) and e.func.id in ("enumerate", "zip", "list", "sorted", "reversed", "tuple") and e.args:
                return [pair for a in e.args for pair in chain_root(a)]
            else:
                return [(e, steps)]

    def binding(name, at):
        """the expression the name is bound from at statement `at` (nearest preceding assignment in an enclosing block, or the
        iterable of an enclosing for / comprehension that binds it); ('param',) for a parameter; None if unknown"""
        node = at
        while node in parent:
            par = parent[node]
            if isinstance(par, (ast.For, ast.comprehension)) and node is not par.iter and any(isinstance(x, ast.Name) and x.id == name for x in ast.walk(par.target)):
                return ("iter", par.iter, par)
            if isinstance(par, (ast.ListComp, ast.SetComp, ast.DictComp, ast.GeneratorExp)):
                for g in par.generators:
                    if any(isinstance(x, ast.Name) and x.id == name for x in ast.walk(g.target)):
                        return ("iter", g.iter, par)
            for field in ("body", "orelse", "finalbody", "handlers"):
                block = getattr(par, field, None)
                if isinstance(block, list) and node in block:
                    for st in reversed(block[: block.index(node)]):
                        if isinstance(st, ast.Assign) and any(isinstance(t, ast.Name) and t.id == name for t in st.targets):
                            return ("value", st.value, st)
                        if isinstance(st, ast.Assign) and any(isinstance(t, (ast.Tuple, ast.List)) and any(isinstance(x, ast.Name) and x.id == name for x in t.elts) for t in st.targets):
                            return ("iter", st.value, st)
            if isinstance(par, (ast.FunctionDef, ast.AsyncFunctionDef)):
                break
            node = par
        return ("param",) if name in params else None

    def reaches_input(e, at, depth=0):
        """does the object denoted by expression `e` (evaluated at statement `at`) belong to an input?"""
        if depth > 8:
            return False
        for bottom, steps in chain_root(e):
            if not isinstance(bottom, ast.Name):
                continue
            b = binding(bottom.id, at)
            if b is None:
                continue
            if b[0] == "param":
                if bottom.id in roots:
                    return True
                continue
            if b[0] == "value":
                # x = <chain from an input>: x is (part of) the input; x = f(...): a new object
                if any(isinstance(bb, ast.Name) or st > 0 for bb, st in chain_root(b[1])) and reaches_input(b[1], b[2], depth + 1):
                    return True
            else:
                if reaches_input(b[1], b[2], depth + 1):
                    return True
        return False

    def stmt_of(node):
        while node in parent and not isinstance(node, ast.stmt):
            node = parent[node]
        return node

    # local containers that hold (on some path) a reference into an input: `d[k] = parset.pars[q].y_factor` -- writing THROUGH an element
    # of such a container (`d[k][j] = ...`, `d[k].attr = ...`) writes into the input
    holds_input = {}
    for st in ast.walk(fi.node):
        if isinstance(st, ast.Assign) and len(st.targets) == 1 and isinstance(st.targets[0], ast.Subscript) and isinstance(st.targets[0].value, ast.Name):
            v = st.value
            if isinstance(v, (ast.Attribute, ast.Subscript)) and reaches_input(v, st):
                holds_input.setdefault(st.targets[0].value.id, []).append((st.lineno, ast.unparse(v)))

    def through_held_element(x):
        """x = name[...]<one or more further steps> with `name` a local container holding input references"""
        steps, e = 0, x
        while isinstance(e, (ast.Attribute, ast.Subscript)):
            e, steps = e.value, steps + 1
        return e.id if isinstance(e, ast.Name) and e.id in holds_input and steps >= 2 else None

    n = 0
    for s in ast.walk(fi.node):
        targets = []
        if isinstance(s, ast.Assign):
            targets = s.targets
        elif isinstance(s, (ast.AugAssign, ast.AnnAssign)):
            targets = [s.target]
        elif isinstance(s, ast.Delete):
            targets = s.targets
        for t in targets:
            for x in ([t] if not isinstance(t, (ast.Tuple, ast.List)) else t.elts):
                held = through_held_element(x) if isinstance(x, (ast.Attribute, ast.Subscript)) else None
                if held is not None:
                    n += 1
                    line, src = holds_input[held][0]
                    out.append(_ob(qualname, "writes-through-input@L%d" % s.lineno, False, s.lineno, "`%s` is assigned at line %d, and `%s` holds `%s` (stored at line %d without a copy): the caller's object is modified" % (ast.unparse(x), s.lineno, held, src, line)))
                    continue
                if isinstance(x, (ast.Attribute, ast.Subscript)) and reaches_input(x.value, s):
                    n += 1
                    out.append(_ob(qualname, "writes-through-input@L%d" % s.lineno, False, s.lineno, "`%s` is assigned at line %d and is reached from the input(s) %s: the caller's object is modified" % (ast.unparse(x), s.lineno, sorted(roots))))
        if isinstance(s, ast.Call) and isinstance(s.func, ast.Attribute) and s.func.attr in MUTATORS and reaches_input(s.func.value, stmt_of(s)):
            n += 1
            out.append(_ob(qualname, "mutating-call-on-input:%s@L%d" % (s.func.attr, s.lineno), False, s.lineno, "`%s` at line %d mutates an object reached from the input(s) %s" % (ast.unparse(s)[:80], s.lineno, sorted(roots))))
    out.append(_ob(qualname, "inputs-only-read:%s" % ",".join(sorted(roots)), True, None, "no write through %s" % sorted(roots)))
    return out


def comparisons_with_loop_constants_can_hold(qualname):
    """a loop variable that ranges over a literal list of string constants (directly, or as one component of a zip of literal
    lists) is only compared with constants it can take: `x == "c"` with "c" not in the list is a rule that can never fire (dead
    validation branch)"""
    fi = source.lookup(qualname)
    out = []
    n = 0

    def consts(node):
        if isinstance(node, (ast.List, ast.Tuple, ast.Set)) and node.elts and all(isinstance(e, ast.Constant) and isinstance(e.value, str) for e in node.elts):
            return [e.value for e in node.elts]
        return None

    for loop in ast.walk(fi.node):
        if not isinstance(loop, ast.For):
            continue
        ranges = {}
        if isinstance(loop.target, ast.Name) and consts(loop.iter):
            ranges[loop.target.id] = consts(loop.iter)
        elif isinstance(loop.target, ast.Tuple) and isinstance(loop.iter, ast.Call) and isinstance(loop.iter.func, ast.Name) and loop.iter.func.id == "zip":
            for t, a in zip(loop.target.elts, loop.iter.args):
                if isinstance(t, ast.Name) and consts(a):
                    ranges[t.id] = consts(a)
        if not ranges:
            continue
        rebound = {x.id for b in loop.body for x in ast.walk(b) if isinstance(x, ast.Name) and isinstance(x.ctx, ast.Store)}
        for b in loop.body:
            for c in ast.walk(b):
                if isinstance(c, ast.Compare) and len(c.ops) == 1 and isinstance(c.left, ast.Name) and c.left.id in ranges and c.left.id not in rebound:
                    vals = ranges[c.left.id]
                    rhs = c.comparators[0]
                    if isinstance(c.ops[0], (ast.Eq, ast.NotEq)) and isinstance(rhs, ast.Constant) and isinstance(rhs.value, str):
                        n += 1
                        ok = rhs.value in vals
                        out.append(_ob(qualname, "comparison-can-hold:%s==%r@L%d" % (c.left.id, rhs.value, c.lineno), ok, c.lineno,
                                       "`%s` ranges over %r (loop at line %d); the test `%s` at line %d can %s" % (c.left.id, vals, loop.lineno, ast.unparse(c), c.lineno, "hold" if ok else "NEVER hold: the rule it guards is dead")))
                    elif isinstance(c.ops[0], (ast.In, ast.NotIn)) and consts(rhs):
                        n += 1
                        dead = [v for v in consts(rhs) if v not in vals]
                        out.append(_ob(qualname, "comparison-can-hold:%s-in-%d-constants@L%d" % (c.left.id, len(consts(rhs)), c.lineno), not dead, c.lineno,
                                       "`%s` ranges over %r; the test `%s` at line %d names %s" % (c.left.id, vals, ast.unparse(c), c.lineno, ("values it never takes: %r" % dead) if dead else "only values it takes")))
    return out


def rules_can_fire(qualname):
    """validation code whose test can never fail or never hold, by construction of the expression itself:
    `assert (cond, msg)` (a non-empty tuple is always true), an `elif` repeating an earlier test of the same chain, a Boolean
    operation with the same operand twice (`a or a`: the second operand was meant to be something else), a comparison of an
    expression with itself, statements after an unconditional raise / return / continue / break in the same block"""
    fi = source.lookup(qualname)
    out = []
    pure = lambda e: not any(isinstance(x, (ast.Call, ast.Await, ast.Yield, ast.NamedExpr)) and not (isinstance(x, ast.Call) and isinstance(x.func, (ast.Name, ast.Attribute)) and (getattr(x.func, "attr", None) or getattr(x.func, "id", "")) in ("len", "isfinite", "isnan", "isna", "isinstance", "lower", "strip", "keys", "values")) for x in ast.walk(e))
    for node in ast.walk(fi.node):
        if isinstance(node, ast.Assert) and isinstance(node.test, ast.Tuple) and node.test.elts:
            out.append(_ob(qualname, "assert-can-fail@L%d" % node.lineno, False, node.lineno, "`assert (%s)` tests a non-empty tuple, which is always true: the condition is never checked" % ast.unparse(node.test)[:80]))
        if isinstance(node, ast.If):
            seen = [ast.dump(node.test)]
            cur = node
            while len(cur.orelse) == 1 and isinstance(cur.orelse[0], ast.If):
                cur = cur.orelse[0]
                d = ast.dump(cur.test)
                if d in seen and pure(cur.test):
                    out.append(_ob(qualname, "elif-can-be-reached@L%d" % cur.lineno, False, cur.lineno, "`elif %s` repeats an earlier test of the same chain: its branch can never run" % ast.unparse(cur.test)[:80]))
                seen.append(d)
        if isinstance(node, ast.BoolOp):
            dumps = [ast.dump(v) for v in node.values]
            for i, d in enumerate(dumps):
                if d in dumps[:i] and pure(node.values[i]):
                    out.append(_ob(qualname, "boolean-operands-distinct@L%d" % node.lineno, False, node.lineno, "`%s` names the operand `%s` twice: one of them was meant to be something else" % (ast.unparse(node)[:100], ast.unparse(node.values[i])[:50])))
        if isinstance(node, ast.Compare) and len(node.ops) == 1 and pure(node.left) and ast.dump(node.left) == ast.dump(node.comparators[0]) and not isinstance(node.ops[0], (ast.Is, ast.IsNot)):
            if not (isinstance(node.ops[0], (ast.Eq, ast.NotEq)) and isinstance(node.left, (ast.Name, ast.Attribute, ast.Subscript))):  # x != x is the NaN idiom
                out.append(_ob(qualname, "comparison-of-an-expression-with-itself@L%d" % node.lineno, False, node.lineno, "`%s`" % ast.unparse(node)[:80]))
        for field in ("body", "orelse", "finalbody"):
            block = getattr(node, field, None)
            if isinstance(block, list) and block and isinstance(block[0], ast.stmt):
                for i, st in enumerate(block[:-1]):
                    if isinstance(st, (ast.Raise, ast.Return, ast.Continue, ast.Break)):
                        nxt = block[i + 1]
                        if not (isinstance(nxt, ast.Expr) and isinstance(nxt.value, ast.Constant)):
                            out.append(_ob(qualname, "statement-reachable@L%d" % nxt.lineno, False, nxt.lineno, "the statement at line %d follows an unconditional `%s` in the same block and can never run" % (nxt.lineno, type(st).__name__.lower())))
                        break
    return out


def table_entries_have_same_keys(modname):
    """entries stored into the same look-up table as literal dicts (`x.table[k] = {"label": ..., "type": ...}`) carry the same keys
    wherever they are built in the module (readers of the table index the entries by those keys)"""
    import collections

    m = source.load(modname)
    groups = collections.defaultdict(list)
    for node in ast.walk(m.tree):
        if isinstance(node, ast.Assign) and len(node.targets) == 1 and isinstance(node.targets[0], ast.Subscript) and isinstance(node.value, ast.Dict) and node.value.keys \
                and all(isinstance(k, ast.Constant) for k in node.value.keys):
            table = ast.unparse(node.targets[0].value).split(".")[-1]
            groups[table].append((node.lineno, tuple(sorted(str(k.value) for k in node.value.keys))))
    out = []
    for table, items in sorted(groups.items()):
        if len(items) < 2:
            continue
        keysets = sorted(set(k for _, k in items), key=lambda k: -sum(1 for _, kk in items if kk == k))
        ok = len(keysets) == 1
        odd = [(ln, k) for ln, k in items if k != keysets[0]]
        out.append(dict(function="%s:module-level" % modname, name="entries-of-%s-have-the-same-keys:%d sites" % (table, len(items)), kind="structural", status="proved" if ok else "refuted", seconds=0.0, backend="ast-analysis",
                        line=odd[0][0] if odd else None,
                        note=("every literal entry stored in `%s` has the keys %r" % (table, list(keysets[0]))) if ok else
                        ("entries stored in `%s` are built with different keys: %r at most sites, but %r at line %d" % (table, list(keysets[0]), list(odd[0][1]), odd[0][0]))))
    return out


def resolved_defaults_are_used(qualname):
    """`x = self.x if self.x is not None else <fallback>` resolves an optional setting once; every later decision in the function must read
    the resolved local `x` -- reading `self.x` again ignores the fallback (the setting then counts as off whenever it was left at None)"""
    fi = source.lookup(qualname)
    out = []
    resolved = {}
    for s in ast.walk(fi.node):
        if isinstance(s, ast.Assign) and len(s.targets) == 1 and isinstance(s.targets[0], ast.Name) and isinstance(s.value, ast.IfExp):
            name = s.targets[0].id
            v = s.value
            pat = "self.%s" % name
            if ast.unparse(v.body) == pat and ast.unparse(v.test) in ("%s is not None" % pat,) :
                resolved[name] = s
    for name, st in resolved.items():
        uses = [n for n in ast.walk(fi.node) if isinstance(n, ast.Attribute) and isinstance(n.ctx, ast.Load) and n.attr == name and isinstance(n.value, ast.Name) and n.value.id == "self"
                and n.lineno > st.end_lineno]
        ok = not uses
        out.append(_ob(qualname, "resolved-setting-is-used:%s" % name, ok, uses[0].lineno if uses else st.lineno,
                       ("`%s` is resolved at line %d and only the resolved value is read afterwards" % (name, st.lineno)) if ok else
                       ("`%s` is resolved at line %d (falling back when self.%s is None) but `self.%s` is read again at line(s) %s: with the setting left at None the fallback is ignored there" % (name, st.lineno, name, name, sorted({u.lineno for u in uses})))))
    return out


def none_guard_matches_use(qualname):
    """`if obj.a is not None: ... obj.b.method() ...` -- the body never reads the attribute the guard tested but dereferences ANOTHER
    attribute of the same object: the guard was meant for the attribute that is used (copy-paste of a neighbouring block)"""
    fi = source.lookup(qualname)
    out = []
    n = 0
    for node in ast.walk(fi.node):
        if not isinstance(node, ast.If):
            continue
        tests = node.test.values if isinstance(node.test, ast.BoolOp) and isinstance(node.test.op, ast.And) else [node.test]
        for t in tests:
            if isinstance(t, ast.Compare) and len(t.ops) == 1 and isinstance(t.ops[0], ast.IsNot) and isinstance(t.comparators[0], ast.Constant) and t.comparators[0].value is None \
                    and isinstance(t.left, ast.Attribute) and isinstance(t.left.value, ast.Name) and t.left.value.id != "self":
                base, guarded = t.left.value.id, t.left.attr
                n += 1
                body_nodes = [x for b in node.body for x in ast.walk(b)]
                uses_guarded = any(isinstance(x, ast.Attribute) and x.attr == guarded and isinstance(x.value, ast.Name) and x.value.id == base for x in body_nodes)
                deref_other = sorted({x.value.attr for x in body_nodes if isinstance(x, (ast.Attribute, ast.Subscript)) and isinstance(x.value, ast.Attribute) and isinstance(x.value.value, ast.Name)
                                      and x.value.value.id == base and x.value.attr != guarded})
                ok = uses_guarded or not deref_other
                out.append(_ob(qualname, "none-guard-matches-use:%s.%s@L%d" % (base, guarded, node.lineno), ok, node.lineno,
                               ("the guarded attribute `%s.%s` is the one the body uses" % (base, guarded)) if ok else
                               ("the guard tests `%s.%s is not None` but the body never reads it and dereferences `%s.%s` instead" % (base, guarded, base, deref_other[0]))))
    return out


def no_order_dependent_iteration_over_sets(qualname):
    """the iteration order of a set of strings depends on the interpreter's hash seed (PYTHONHASHSEED, random per process by default): a
    loop over a set -- a set display / comprehension / set(...) call, or a local name bound to one -- whose body appends, inserts,
    accumulates or registers in order makes the result depend on the process.  Loops that only test membership, raise, or add to
    another set are order-independent and not reported."""
    fi = source.lookup(qualname)
    out = []

    def is_set_expr(e):
        if isinstance(e, (ast.Set, ast.SetComp)):
            return True
        if isinstance(e, ast.Call) and isinstance(e.func, ast.Name) and e.func.id in ("set", "frozenset"):
            return True
        if isinstance(e, ast.BinOp) and isinstance(e.op, (ast.BitOr, ast.BitAnd, ast.Sub, ast.BitXor)) and (is_set_expr(e.left) or is_set_expr(e.right)):
            return True
        if isinstance(e, ast.Call) and isinstance(e.func, ast.Attribute) and e.func.attr in ("union", "intersection", "difference", "symmetric_difference") and is_set_expr(e.func.value):
            return True
        return False

    set_names = {}
    for s in ast.walk(fi.node):
        if isinstance(s, ast.Assign) and len(s.targets) == 1 and isinstance(s.targets[0], ast.Name):
            set_names.setdefault(s.targets[0].id, []).append(is_set_expr(s.value))
        if isinstance(s, (ast.For, ast.comprehension)):
            for x in ast.walk(s.target):
                if isinstance(x, ast.Name):
                    set_names.setdefault(x.id, []).append(False)  # also bound as a loop variable: not known to be a set
    n = 0
    for loop in ast.walk(fi.node):
        iters = []
        if isinstance(loop, ast.For):
            iters = [(loop.iter, loop.body)]
        elif isinstance(loop, (ast.ListComp,)):
            iters = [(g.iter, None) for g in loop.generators]
        for it_expr, body in iters:
            e = it_expr
            if isinstance(e, ast.Call) and isinstance(e.func, ast.Name) and e.func.id in ("enumerate", "list", "tuple") and e.args:
                e = e.args[0]
            from_set = is_set_expr(e) or (isinstance(e, ast.Name) and set_names.get(e.id) and all(set_names[e.id]))
            if not from_set:
                continue
            n += 1
            if body is None:
                ordered = True  # a list built from a set keeps the set's order
            else:
                ordered = any((isinstance(x, ast.Call) and isinstance(x.func, ast.Attribute) and (x.func.attr in ("append", "insert", "extend", "write") or x.func.attr.startswith("add_") or x.func.attr == "connect"))
                              or isinstance(x, ast.AugAssign) for b in body for x in ast.walk(b))
            out.append(_ob(qualname, "set-iteration-is-order-independent@L%d" % it_expr.lineno, not ordered, it_expr.lineno,
                           ("the loop over the set `%s` only tests / raises / builds another set" % ast.unparse(it_expr)[:60]) if not ordered else
                           ("the loop over the set `%s` at line %d appends, inserts, accumulates or registers in iteration order: the order of a set of strings depends on the hash seed of the process" % (ast.unparse(it_expr)[:60], it_expr.lineno))))
    return out


def time_indexed_access_is_local(qualname):
    """temporal locality of one integration step (DESIGN 3.3: what C09 "nothing before Y changes" and C10 "a run restarted at Y continues
    the trajectory" rest on): in a function that works on the current step -- it has a parameter `ti`, or binds a local from
    `self._t_index` -- every access to time-indexed storage (`.vals[...]`, the time axis of `._vals[row, ...]`, and the item access
    `x[...]` on `self` or on a name that is elsewhere in the function subscripted by the current step) names the current step: `ti` or a local computed from it only
    (`tr = ti - 1`).  An access at a fixed index (`vals[0]`) makes the step depend on where the simulation started.
    Returns [] for functions that do not work on a current step."""
    fi = source.lookup(qualname)
    fn = fi.node
    names = lambda n: {x.id for x in ast.walk(n) if isinstance(x, ast.Name)}
    T = set()
    if "ti" in [a.arg for a in fn.args.args]:
        T.add("ti")
    for n in ast.walk(fn):
        if isinstance(n, ast.Assign) and len(n.targets) == 1 and isinstance(n.targets[0], ast.Name) and ast.unparse(n.value) == "self._t_index":
            T.add(n.targets[0].id)
    if not T:
        return []
    changed = True
    while changed:
        changed = False
        for n in ast.walk(fn):
            if isinstance(n, ast.Assign) and len(n.targets) == 1 and isinstance(n.targets[0], ast.Name) and n.targets[0].id not in T:
                nm = names(n.value)
                if nm and nm <= T:
                    T.add(n.targets[0].id)
                    changed = True
    # names used as model variables: somewhere in the function they are subscripted by the current step (`par[ti]`, Variable.__getitem__)
    tv_names = {"self"} | {n.value.id for n in ast.walk(fn) if isinstance(n, ast.Subscript) and isinstance(n.value, ast.Name) and (names(n.slice) & T)}
    bad, n_access = [], 0
    for node in ast.walk(fn):
        if not isinstance(node, ast.Subscript):
            continue
        v = node.value
        if isinstance(v, ast.Attribute) and v.attr in ("vals", "_vals"):
            idx = node.slice
            if v.attr == "_vals" and isinstance(idx, ast.Tuple) and len(idx.elts) == 2:
                idx = idx.elts[1]
            n_access += 1
            if not (names(idx) & T):
                bad.append(node)
        elif isinstance(v, ast.Name) and v.id in tv_names and v.id not in T:
            if names(node.slice) & T:
                n_access += 1
            elif isinstance(node.slice, ast.Constant) and isinstance(node.slice.value, int) and not isinstance(node.slice.value, bool):
                n_access += 1
                bad.append(node)
    if not n_access:
        return []
    return [_ob(qualname, "time-indexed-access-is-at-the-current-step", not bad, bad[0].lineno if bad else fn.lineno,
                ("all %d accesses to time-indexed storage name the current step (%s)" % (n_access, ", ".join(sorted(T)))) if not bad else
                ("`%s` at line %d reads or writes time-indexed storage at an index that does not depend on the current step (%s): the step then depends on where the simulation started" % (ast.unparse(bad[0]), bad[0].lineno, ", ".join(sorted(T)))))]


# ------------------------------------------------------------------------------------------------ loop-carried locals
def _lc_reads(node):
    bound = set()
    for n in ast.walk(node):
        if isinstance(n, ast.comprehension):
            bound |= _lc_targets(n.target)
        if isinstance(n, ast.Lambda):
            bound |= {a.arg for a in n.args.args}
    return [n for n in ast.walk(node) if isinstance(n, ast.Name) and isinstance(n.ctx, ast.Load) and n.id not in bound]

def _lc_walk_no_loops(st):
    yield st
    for c in ast.iter_child_nodes(st):
        if isinstance(c, (ast.For, ast.While, ast.FunctionDef, ast.Lambda)):
            continue
        yield from _lc_walk_no_loops(c)

def _lc_targets(t):
    out = set()
    for n in ast.walk(t):
        if isinstance(n, ast.Name) and isinstance(n.ctx, ast.Store):
            out.add(n.id)
    return out

def _lc_scan_loop(loop, nested=False):
    """-> list of (name, lineno) read in an iteration before any assignment of that iteration, although the body assigns the name"""
    body_assigned = set()
    for st in loop.body:
        if isinstance(st, (ast.For, ast.While)) and not nested:
            continue
        for n in (ast.walk(st) if nested else _lc_walk_no_loops(st)):
            if isinstance(n, ast.Assign):
                for t in n.targets:
                    if isinstance(t, (ast.Name, ast.Tuple)):
                        body_assigned |= _lc_targets(t)
    acc = set()   # accumulators: x += .., x = f(x)
    for st in loop.body:
        for n in ast.walk(st):
            if isinstance(n, ast.AugAssign) and isinstance(n.target, ast.Name):
                acc.add(n.target.id)
            if isinstance(n, ast.Assign) and len(n.targets) == 1 and isinstance(n.targets[0], ast.Name) and any(r.id == n.targets[0].id for r in _lc_reads(n.value)):
                acc.add(n.targets[0].id)
    # a running extreme (`if v < best: best = v`) is an accumulator too: the name is read in the test that guards its own assignment
    for st in loop.body:
        for n in ast.walk(st):
            if isinstance(n, ast.If):
                tested = {r.id for r in _lc_reads(n.test)}
                for b in n.body:
                    if isinstance(b, ast.Assign):
                        for t in b.targets:
                            acc |= (_lc_targets(t) & tested)
    found = []
    by_test = {}
    def walk(stmts, defs):
        defs = set(defs)
        for st in stmts:
            if isinstance(st, ast.Assign):
                for r in _lc_reads(st.value): check(r, defs)
                for t in st.targets:
                    if isinstance(t, (ast.Name, ast.Tuple)): defs |= _lc_targets(t)
                    else:
                        for r in _lc_reads(t): check(r, defs)
            elif isinstance(st, ast.If):
                for r in _lc_reads(st.test): check(r, defs)
                key = ast.unparse(st.test)
                d1 = walk(st.body, defs | by_test.get((key, True), set())); d2 = walk(st.orelse, defs | by_test.get((key, False), set()))
                by_test[(key, True)] = by_test.get((key, True), set()) | (d1 - defs)
                by_test[(key, False)] = by_test.get((key, False), set()) | (d2 - defs)
                t1 = terminates(st.body); t2 = terminates(st.orelse)
                defs = d2 if t1 and not t2 else d1 if t2 and not t1 else (d1 & d2)
            elif isinstance(st, (ast.For, ast.While)):
                if isinstance(st, ast.For):
                    for r in _lc_reads(st.iter): check(r, defs)
                    inner = defs | _lc_targets(st.target)
                else:
                    for r in _lc_reads(st.test): check(r, defs)
                    inner = defs
                walk(st.body, inner)   # names assigned in an inner loop are not definitely assigned after it
            elif isinstance(st, ast.Try):
                d = walk(st.body, defs)
                hd = [walk(h.body, defs) for h in st.handlers if not terminates(h.body)]
                for h in st.handlers:
                    if terminates(h.body): walk(h.body, defs)
                d = walk(st.orelse, d)
                for x in hd: d = d & x
                defs = walk(st.finalbody, d)
            elif isinstance(st, ast.With):
                for it in st.items:
                    for r in _lc_reads(it.context_expr): check(r, defs)
                    if it.optional_vars is not None: defs |= _lc_targets(it.optional_vars)
                defs = walk(st.body, defs)
            else:
                for r in _lc_reads(st): check(r, defs)
                if isinstance(st, (ast.AugAssign,)) and isinstance(st.target, ast.Name): pass
        return defs
    def terminates(stmts):
        return bool(stmts) and isinstance(stmts[-1], (ast.Continue, ast.Break, ast.Return, ast.Raise))
    def check(r, defs):
        if r.id in body_assigned and r.id not in defs and r.id not in acc:
            found.append((r.id, r.lineno))
    walk(loop.body, _lc_targets(loop.target))
    return found



def no_loop_carried_locals(qualname, nested=False):
    """each iteration of a loop over independent items (series, outputs, populations) computes from that item alone: a local name that the
    loop body assigns (plain assignment, outside nested loops) is not read in an iteration before that iteration has assigned it -- otherwise
    the value comes from the previous item (or from before the loop) and the result for an item depends on which other items were
    processed before it.  Accumulators (`x += ..`, `x = f(x)`) are loop-carried on purpose and not reported; a read under the same
    condition (same test text) as an earlier assignment of the iteration counts as assigned.  With `nested`, assignments inside nested loops
    count as well (a value set while scanning the cells of a row and used after them must be reset for every row)."""
    fi = source.lookup(qualname)
    out = []
    for loop in ast.walk(fi.node):
        if isinstance(loop, ast.For):
            hits = _lc_scan_loop(loop, nested)
            names = sorted({n for n, _ in hits})
            out.append(_ob(qualname, "iteration-uses-only-its-own-locals@L%d" % loop.lineno, not hits, hits[0][1] if hits else loop.lineno,
                           ("every local the body of the loop over `%s` assigns is assigned in an iteration before it is read" % ast.unparse(loop.iter)[:60]) if not hits else
                           ("in the loop over `%s` the local %s is read at line %d before the iteration has assigned it on every path: its value is left over from the previous item"
                            % (ast.unparse(loop.iter)[:60], ", ".join("`%s`" % n for n in names), hits[0][1]))))
    return out
