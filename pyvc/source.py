"""
pyvc.source -- the front end: the verified text is read from /repo on every run.

Functions are looked up by qualified name ("model:Compartment.resolve_outflows") in the module file under
$ATOMICA_REPO/atomica (default /repo/atomica).  What the extraction drops (and nothing else): docstrings, comments,
type annotations and decorators other than @property/@classmethod/@staticmethod (none of the functions under
contract has any other decorator; a different decorator makes the function `unsupported`).
"""
import ast
import hashlib
import os

REPO = os.environ.get("ATOMICA_REPO", "/repo")


class FuncInfo:
    def __init__(self, module, cls, node, src):
        self.module = module
        self.cls = cls
        self.node = node
        self.name = node.name
        self.qualname = "%s:%s%s" % (module.name, (cls + ".") if cls else "", node.name)
        self.src_hash = hashlib.sha256(src.encode()).hexdigest()[:16]
        decos = []
        for d in node.decorator_list:
            if isinstance(d, ast.Name):
                decos.append(d.id)
            elif isinstance(d, ast.Attribute):
                decos.append(d.attr)
            else:
                decos.append("?")
        self.decorators = decos
        self.is_property = "property" in decos
        self.is_classmethod = "classmethod" in decos
        self.is_staticmethod = "staticmethod" in decos
        self.lineno = node.lineno

    def body(self):
        b = self.node.body
        if b and isinstance(b[0], ast.Expr) and isinstance(b[0].value, ast.Constant) and isinstance(b[0].value.value, str):
            return b[1:]
        return b


class ModuleInfo:
    def __init__(self, name, path):
        self.name = name
        self.path = path
        with open(path) as f:
            self.text = f.read()
        self.tree = ast.parse(self.text)
        self.lines = self.text.splitlines()
        self.classes = {}  # name -> (ClassDef, [base names])
        self.functions = {}  # name -> FuncInfo
        self.methods = {}  # (cls, name) -> FuncInfo
        self.imports = {}  # alias -> dotted name
        self.globals_const = {}
        for node in self.tree.body:
            if isinstance(node, ast.ClassDef):
                bases = []
                for b in node.bases:
                    if isinstance(b, ast.Name):
                        bases.append(b.id)
                    elif isinstance(b, ast.Attribute):
                        bases.append(b.attr)
                self.classes[node.name] = (node, bases)
                for sub in node.body:
                    if isinstance(sub, (ast.FunctionDef,)):
                        fi = FuncInfo(self, node.name, sub, ast.get_source_segment(self.text, sub) or "")
                        # a property setter shares the name: key setters separately
                        key = (node.name, sub.name)
                        if any(isinstance(d, ast.Attribute) and d.attr == "setter" for d in sub.decorator_list):
                            key = (node.name, sub.name + ".setter")
                            fi.qualname += ".setter"
                        self.methods[key] = fi
            elif isinstance(node, ast.FunctionDef):
                self.functions[node.name] = FuncInfo(self, None, node, ast.get_source_segment(self.text, node) or "")
            elif isinstance(node, ast.Import):
                for a in node.names:
                    self.imports[a.asname or a.name.split(".")[0]] = a.name
            elif isinstance(node, ast.ImportFrom):
                for a in node.names:
                    self.imports[a.asname or a.name] = ("." * node.level) + (node.module or "") + ":" + a.name
            elif isinstance(node, ast.Assign) and len(node.targets) == 1 and isinstance(node.targets[0], ast.Name):
                self.globals_const[node.targets[0].id] = node.value
            elif (isinstance(node, ast.Assign) and len(node.targets) == 1 and isinstance(node.targets[0], ast.Subscript) and isinstance(node.targets[0].value, ast.Name)
                  and isinstance(node.targets[0].slice, ast.Constant) and isinstance(node.value, ast.Constant)):
                # module-level  NAME["key"] = constant  after  NAME = dict() / {}: folded into a dict literal
                name = node.targets[0].value.id
                cur = self.globals_const.get(name)
                if isinstance(cur, ast.Call) and isinstance(cur.func, ast.Name) and cur.func.id == "dict" and not cur.args and not cur.keywords:
                    cur = ast.Dict(keys=[], values=[])
                if isinstance(cur, ast.Dict):
                    cur.keys.append(node.targets[0].slice)
                    cur.values.append(node.value)
                    self.globals_const[name] = cur

    def mro(self, cls):
        """linearised ancestors within this module (single inheritance in atomica)"""
        out = [cls]
        seen = {cls}
        i = 0
        while i < len(out):
            c = out[i]
            i += 1
            if c in self.classes:
                for b in self.classes[c][1]:
                    if b not in seen:
                        seen.add(b)
                        out.append(b)
        return out

    def resolve_method(self, cls, name):
        for c in self.mro(cls):
            if (c, name) in self.methods:
                return self.methods[(c, name)]
        return None

    def subclasses(self, cls):
        return [c for c in self.classes if cls in self.mro(c)]

    def receivers(self, cls, name):
        """classes D (subclasses of cls) for which D.name resolves to cls.name"""
        target = self.methods.get((cls, name))
        return [d for d in self.subclasses(cls) if self.resolve_method(d, name) is target]


_cache = {}


def load(modname):
    path = os.path.join(REPO, "atomica", modname + ".py")
    key = (path, os.path.getmtime(path))
    if key not in _cache:
        _cache[key] = ModuleInfo(modname, path)
    return _cache[key]


def lookup(qualname):
    """'model:Compartment.update' or 'optimization:constrain_sum_bounded' -> FuncInfo"""
    qualname = qualname.split("#")[0]  # "#variant" distinguishes several contracts on one function
    modname, rest = qualname.split(":")
    m = load(modname)
    if "." in rest:
        cls, name = rest.split(".", 1)
        fi = m.methods.get((cls, name))
    else:
        fi = m.functions.get(rest)
    if fi is None:
        raise KeyError("function %s not found in %s" % (qualname, m.path))
    return fi
