"""
pyvc.run -- the check driver:   python -m pyvc.run <property-id> [--tier quick|thorough] [--replay FILE] [--only SUBSTR]

Exit codes: 0 every obligation of the property discharged (known findings are printed and do not fail the check);
            1 a registered obligation is refuted  -> line  VIOLATION property=<id> replay=<file> [no-failing-input-found]
            2 undecided (solver unknown / timeout / construct not modelled / loop summary not verifiable)
            3 checker error (vacuous assumptions, cross-check disagreement, internal error)
"""
import argparse
import importlib
import json
import multiprocessing as mp
import os
import re
import pkgutil
import sys
import time
import traceback

ROOT = os.path.dirname(os.path.dirname(os.path.abspath(__file__)))
sys.path.insert(0, ROOT)
# replays import the package from the same tree the verification conditions are generated from
sys.path.insert(0, os.environ.get("ATOMICA_REPO", "/repo"))

TIERS = {"quick": dict(timeout_ms=30000), "thorough": dict(timeout_ms=180000)}


def load_registry():
    """all contract modules under /verif/contracts: returns (contracts: qualname -> contract, schemas: name -> schema, extras)"""
    import contracts

    reg = {}
    schemas = {}
    extras = {}
    for m in pkgutil.iter_modules(contracts.__path__):
        mod = importlib.import_module("contracts." + m.name)
        if hasattr(mod, "SCHEMA"):
            schemas[m.name] = mod.SCHEMA
        for q, c in getattr(mod, "CONTRACTS", {}).items():
            if q in reg:
                raise RuntimeError("duplicate contract for %s" % q)
            c = dict(c)
            c["_module"] = m.name
            reg[q] = c
        for pid, fn in getattr(mod, "EXTRA_CHECKS", {}).items():
            extras.setdefault(pid, []).append((m.name, fn))
    return reg, schemas, extras


def clause_props(entry):
    name = entry[0] if isinstance(entry, tuple) else "ensures"
    if isinstance(entry, tuple) and len(entry) > 2:
        return list(entry[2])
    head = name.split(".")[0]
    return [p for p in head.split("+") if p.startswith("C")]


def contract_for_property(c, pid):
    """restrict a contract to the clauses that carry property pid; None if the function has nothing for it"""
    ens = [e for e in c.get("ensures", []) if pid in clause_props(e)]
    frame = pid in c.get("frame_props", [])
    defined = pid in c.get("defined_props", [])
    raises = pid in c.get("raises_props", [])
    if not ens and not frame and not defined and not raises:
        return None
    c2 = dict(c)
    c2["ensures"] = [(e[0], e[1]) for e in ens]
    if not frame:
        c2.pop("modifies", None)
    c2["_defined"] = defined
    c2["_raises"] = raises
    return c2


_JOBS = {}
_SCALE = {}  # job -> factor on the solver budget (second attempt of a function whose first attempt left an obligation undecided)
_REGISTRY = {}  # qualname -> contract, for modular calls (callers see the contracts of callees marked `modular`)


def worker(job):
    # contracts may hold closures (not picklable): the job table is inherited through fork, only the key is sent
    qualname, c, schema, pid, tier, only = _JOBS[job]
    out = dict(function=qualname, obligations=[], unsupported=[], paths=0, src_hash=None, assumptions=[], seconds=0.0, error=None, side_proofs=0)
    t0 = time.time()
    try:
        from pyvc import verify, replay, core, source

        rep = verify.verify_function(qualname, c, schema, timeout_ms=TIERS[tier]["timeout_ms"] * _SCALE.get(job, 1), only=only, contracts=_REGISTRY)
        out["paths"] = rep.paths
        out["src_hash"] = rep.src_hash
        out["unsupported"] = rep.unsupported
        out["assumptions"] = sorted(rep.assumptions)
        out["side_proofs"] = rep.lemma_side_proofs
        for ob in rep.obligations:
            if ob.status == "skipped":
                continue
            if ob.kind == "defined" and not c.get("_defined", False):
                continue
            if ob.kind == "raises" and not (c.get("_raises", False) or c.get("raises") is not None):
                continue
            d = dict(name=ob.name, kind=ob.kind, status=ob.status, seconds=round(ob.seconds, 3), backend=ob.backend, line=ob.line, note=(ob.note or "")[:300])
            if ob.status in ("refuted", "unknown") and ob.kind not in ("cover", "loop-step"):
                try:
                    rp = make_replay(ob, rep, c, qualname, schema) if ob.status == "refuted" else dict(verdict="no-model", detail="solver returned unknown")
                    if rp.get("verdict") != "violates":
                        fz = fuzz_search(ob, c, qualname, schema, n=FUZZ[tier])
                        if fz is not None:
                            rp = fz
                    d["replay"] = rp
                    if ob.status == "unknown" and rp.get("verdict") == "violates":
                        d["status"] = "refuted"
                        d["note"] = (d.get("note") or "") + " [solver undecided; counterexample found by the bounded search around a model of the precondition]"
                        d["backend"] = "bounded-search"
                except Exception as e:
                    d["replay"] = dict(verdict="error", detail="%s: %s" % (type(e).__name__, e), trace=traceback.format_exc()[-800:])
            out["obligations"].append(d)
    except Exception as e:
        out["error"] = "%s: %s\n%s" % (type(e).__name__, e, traceback.format_exc()[-1500:])
    out["seconds"] = round(time.time() - t0, 2)
    return out


def make_replay(ob, rep, c, qualname, schema):
    from pyvc import replay, source, core

    if ob.model is not None and c.get("replay_hook") is not None:
        res = c["replay_hook"](ob.model, c)
        res["model_excerpt"] = str(ob.model)[:1500]
        return replay.jsonable(res)
    if c.get("make_env") is not None and c.get("replay_prepare") is None and (c.get("call_stubs") or c.get("stubs")):
        return dict(verdict="not-attempted", detail="the pre-state of this contract is built by the contract itself (objects of concrete shape / ghost collaborators): no generic replay; solver model: %s" % str(ob.model)[:600])
    if ob.model is None or not hasattr(ob, "replay_ctx") or ob.replay_ctx is None:
        return dict(verdict="no-model", detail="no model available from the back end")
    fi, env, mro_fn = ob.replay_ctx
    desc = replay.extract_state(ob.model, None, fi, env.get("self"), env, schema, mro_fn)
    if c.get("class_module"):
        desc["class_module"] = c["class_module"]
    clause = ob.name.split("/")[0] if ob.kind == "post" else None
    res = replay.run_replay(desc, c, clause)
    if res.get("verdict") != "violates" and ob.status == "refuted":
        # the solver's first model constrains only the list positions it happened to instantiate; look for a counter-model of
        # small shape in which every position satisfies the precondition, and replay that one
        from pyvc import verify

        for L in (2, 3, 1):
            try:
                m2 = verify.small_counter_model(ob, L)
            except Exception:
                m2 = None
            if m2 is None:
                continue
            desc2 = replay.extract_state(m2, None, fi, env.get("self"), env, schema, mro_fn)
            if c.get("class_module"):
                desc2["class_module"] = c["class_module"]
            res2 = replay.run_replay(desc2, c, clause)
            if res2.get("verdict") == "violates":
                res, desc = res2, desc2
                res["found_by"] = "counter-model of small shape (all list lengths <= %d, quantified preconditions instantiated on every position)" % L
                break
    if ob.kind in ("defined", "frame", "loop-step"):
        res["note"] = "obligation kind %s: the replay evaluates all selected ensures clauses and exception behaviour" % ob.kind
    if ob.kind == "post" and res.get("verdict") == "violates" and str(res.get("detail", "")).startswith("real code raised") and res.get("raised") in ("TypeError", "AttributeError", "NameError"):
        # the refuted obligation belongs to a symbolic path that RETURNS normally; a TypeError / AttributeError / NameError of the real code on the state rebuilt
        # from the solver model means that the rebuilt state is not the state of that path (a ghost value the real code cannot use): no evidence either way
        res["verdict"] = "inconclusive"
        res["detail"] = "the real code raised %s on the state rebuilt from the solver model, the symbolic path returns normally: the rebuilt state does not represent the path (%s)" % (res.get("raised"), res.get("detail"))
    res["prestate"] = desc
    res["model_excerpt"] = str(ob.model)[:1500]
    return replay.jsonable(res)


FUZZ = {"quick": 150, "thorough": 1500}


def _perturb(desc, rng):
    import copy

    d = copy.deepcopy(desc)

    def num(x):
        if isinstance(x, bool) or not isinstance(x, (int, float)):
            return x
        if isinstance(x, int):
            return x
        r = rng.random()
        if r < 0.25:
            return x
        if r < 0.45:
            return 0.0
        if r < 0.7:
            return abs(x) * rng.uniform(0, 3) if x else rng.uniform(0, 3)
        if r < 0.85:
            return float(rng.randint(0, 5))
        return rng.uniform(0, 2)

    def walk(v):
        if isinstance(v, dict):
            if "arr1" in v:
                v["arr1"] = [num(float(x) if x is not None else 0.0) for x in v["arr1"]]
            elif "arr2" in v:
                v["arr2"] = [[num(float(x) if x is not None else 0.0) for x in row] for row in v["arr2"]]
            elif "ref" in v or "list" in v:
                pass
            else:
                for k in list(v):
                    v[k] = walk(v[k])
            return v
        return num(v)

    for o in d["objects"].values():
        for f in list(o["fields"]):
            o["fields"][f] = walk(o["fields"][f])
    for k in list(d["args"]):
        if isinstance(d["args"][k], float):
            d["args"][k] = num(d["args"][k])
    return d


def fuzz_search(ob, c, qualname, schema, n=150):
    """bounded search for a failing input on the real code around models of the precondition (refutation only)"""
    import random
    from pyvc import replay, verify

    if not hasattr(ob, "replay_ctx") or ob.replay_ctx is None or not hasattr(ob, "entry") or c.get("replay_hook") is not None or (c.get("make_env") is not None and c.get("replay_prepare") is None and (c.get("call_stubs") or c.get("stubs"))):
        return None
    fi, env, mro_fn = ob.replay_ctx
    rng = random.Random(int(os.environ.get("VERIF_SEED", "0") or 0) + 17)
    bases = []
    if ob.model is not None:
        try:
            bases.append(replay.extract_state(ob.model, None, fi, env.get("self"), env, schema, mro_fn))
        except Exception:
            pass
    for sd in range(6):
        m = verify.entry_model(ob, max_len=2 + sd % 3, seed=sd + 31 * int(os.environ.get("VERIF_SEED", "0") or 0))
        if m is not None:
            try:
                bases.append(replay.extract_state(m, None, fi, env.get("self"), env, schema, mro_fn))
            except Exception:
                pass
    clause = ob.name.split("/")[0] if ob.kind == "post" else None
    tried = ok = 0
    if c.get("class_module"):
        for b in bases:
            b["class_module"] = c["class_module"]
    for b in bases:
        for i in range(max(1, n // max(1, len(bases)))):
            d = b if i == 0 else _perturb(b, rng)
            res = replay.run_replay(d, c, clause)
            tried += 1
            if res.get("verdict") == "holds":
                ok += 1
            if res.get("verdict") == "violates":
                res["prestate"] = d
                res["found_by"] = "bounded search: %d inputs tried around %d models of the precondition" % (tried, len(bases))
                return replay.jsonable(res)
    return dict(verdict="not-found", detail="bounded search: %d inputs tried (%d satisfied the precondition and the clause), none fails" % (tried, ok))


def finding_matches(f, pid, fn, ob):
    if f.get("property") != pid or f.get("status", "open") != "open":
        return False
    if f.get("function") and f["function"] != fn:
        return False
    base = ob["name"].split("/")[0]
    return base == f.get("obligation") or ob["name"].startswith(f.get("obligation", "\0"))


def main(argv=None):
    ap = argparse.ArgumentParser()
    ap.add_argument("property")
    ap.add_argument("--tier", default=os.environ.get("VERIF_TIER", "quick"))
    ap.add_argument("--replay")
    ap.add_argument("--only", action="append")
    ap.add_argument("--jobs", type=int, default=min(16, os.cpu_count() or 4))
    ap.add_argument("--no-evidence", action="store_true")
    args = ap.parse_args(argv)
    pid = args.property
    tier = args.tier if args.tier in TIERS else "quick"
    seed = int(os.environ.get("VERIF_SEED", "0") or 0)
    t0 = time.time()
    if args.replay:
        return do_replay(args.replay)
    reg, schemas, extras = load_registry()
    _REGISTRY.update(reg)
    jobs = []
    for q, c in sorted(reg.items()):
        c2 = contract_for_property(c, pid)
        if c2 is None:
            continue
        if tier not in c.get("tiers", ["quick", "thorough"]):
            continue
        jobs.append((q, c2, schemas[c.get("schema", c["_module"])] if c.get("schema", c["_module"]) in schemas else schemas.get(c.get("schema")), pid, tier, args.only))
    results = []
    lemma_res = []
    checker_errors = []
    if jobs:
        from pyvc import lemmas

        lemma_res = lemmas.prove_lemmas()
        ctx = mp.get_context("fork")
        _JOBS.clear()
        for j in jobs:
            _JOBS[j[0]] = j
        with ctx.Pool(min(args.jobs, max(1, len(jobs)))) as pool:
            results = pool.map(worker, [j[0] for j in jobs], chunksize=1)
        # solver budgets are wall-clock: on a loaded machine an obligation can come back `unknown` that is discharged in a fraction of the budget
        # otherwise.  A function with an undecided obligation gets ONE more attempt with four times the budget and at most four functions at a time;
        # the second result replaces the first only if it leaves fewer obligations undecided.  (A refuted obligation is never retried.)
        again = [i for i, r in enumerate(results) if r["error"] is None and any(o["status"] == "unknown" and o["kind"] != "cover" for o in r["obligations"])]
        if again:
            for i in again:
                _SCALE[jobs[i][0]] = 4
            with ctx.Pool(min(4, len(again))) as pool:
                second = pool.map(worker, [jobs[i][0] for i in again], chunksize=1)
            n_unknown = lambda r: sum(1 for o in r["obligations"] if o["status"] == "unknown" and o["kind"] != "cover")
            for i, r2 in zip(again, second):
                if r2["error"] is None and n_unknown(r2) < n_unknown(results[i]):
                    r2["assumptions"] = sorted(set(r2["assumptions"]) | {"second attempt with four times the solver budget (first attempt left an obligation undecided)"})
                    results[i] = r2
    extra_results = []
    for modname, fn in extras.get(pid, []):
        try:
            extra_results += fn(tier=tier, seed=seed)
        except Exception as e:
            checker_errors.append("extra check %s.%s: %s: %s" % (modname, getattr(fn, "__name__", "?"), type(e).__name__, e))
            traceback.print_exc()
    return report(pid, tier, seed, results, lemma_res, extra_results, checker_errors, t0, args)


def load_known():
    p = os.path.join(ROOT, "known_findings.json")
    if os.path.exists(p):
        return json.load(open(p)).get("findings", [])
    return []


def report(pid, tier, seed, results, lemma_res, extra_results, checker_errors, t0, args):
    known = load_known()
    obligations = 0
    discharged = 0
    violations = []
    undecided = []
    known_hit = []
    samples = []
    functions = []
    backends = {}
    solver_s = 0.0
    assumptions = set()
    os.makedirs(os.path.join(ROOT, "replays"), exist_ok=True)
    for l in lemma_res:
        obligations += 1
        solver_s += l["seconds"]
        if l["status"] == "proved":
            discharged += 1
            backends["z3"] = backends.get("z3", 0) + 1
        else:
            checker_errors.append("sum lemma %s not proved (%s)" % (l["name"], l["status"]))
    all_obs = []
    for r in results:
        functions.append(dict(function=r["function"], source_sha256_16=r["src_hash"], paths=r["paths"], seconds=r["seconds"], lemma_side_proofs=r["side_proofs"]))
        assumptions.update(r["assumptions"])
        if r["error"]:
            checker_errors.append("%s: %s" % (r["function"], r["error"]))
        for u in r["unsupported"]:
            undecided.append(dict(function=r["function"], name=u, status="unsupported"))
        if r["paths"] == 0 and not r["error"]:
            undecided.append(dict(function=r["function"], name="no path explored", status="unsupported"))
        n_real = 0
        for ob in r["obligations"]:
            ob = dict(ob, function=r["function"])
            all_obs.append(ob)
    for ob in extra_results:
        all_obs.append(dict(ob))
    per_fn_count = {}
    dead_paths = {}
    maybe_dead = {}
    bounded = []
    for ob in all_obs:
        if ob.get("kind") == "bounded":
            # bounded stand-ins are reported separately and never counted among the discharged obligations
            b = {k: ob.get(k) for k in ("function", "name", "status", "seconds", "note")}
            b["status"] = {"proved": "no-failing-input-found (bounded, not a proof)", "refuted": "failing input found"}.get(b["status"], b["status"])
            bounded.append(b)
            per_fn_count[ob.get("function")] = per_fn_count.get(ob.get("function"), 0) + 1
            if ob["status"] == "refuted":
                hit = [f for f in known if finding_matches(f, pid, ob.get("function"), ob)]
                if hit:
                    known_hit.append((hit[0], ob))
                else:
                    violations.append(ob)
            elif ob["status"] != "proved":
                undecided.append(ob)
            continue
        obligations += 1
        per_fn_count[ob.get("function")] = per_fn_count.get(ob.get("function"), 0) + 1
        solver_s += ob.get("seconds", 0)
        st = ob["status"]
        if st == "proved":
            discharged += 1
            backends[ob.get("backend") or "z3"] = backends.get(ob.get("backend") or "z3", 0) + 1
        elif st == "refuted":
            if ob.get("kind") == "loop-step":
                undecided.append(ob)
                continue
            hit = [f for f in known if finding_matches(f, pid, ob.get("function"), ob)]
            if hit:
                known_hit.append((hit[0], ob))
            else:
                violations.append(ob)
        elif st == "vacuous":
            # the path's assumptions are contradictory once the sum lemmas are applied: dead code under the contract.
            # It is an error only if a function has no live path at all (then every obligation would hold vacuously).
            dead_paths.setdefault(ob.get("function"), []).append(ob["name"])
            discharged += 1
        elif ob.get("kind") == "cover" and st == "unknown":
            # the solver could not tell whether this path is live or dead; either is acceptable for one path (its other
            # obligations are decided on their own) as long as the function has a path that is proved live -- checked below
            maybe_dead.setdefault(ob.get("function"), []).append(ob["name"])
            discharged += 1
        else:
            undecided.append(ob)
    for fn, names in maybe_dead.items():
        live = [o for o in all_obs if o.get("function") == fn and o.get("kind") == "cover" and o["status"] == "proved"]
        if not live:
            undecided.append(dict(function=fn, name=names[0], kind="cover", status="unknown", note="no path of the function could be shown live"))
    for r in results:
        if not r["error"] and not r["unsupported"] and per_fn_count.get(r["function"], 0) == 0:
            checker_errors.append("%s: zero obligations generated" % r["function"])
        if r["paths"] and len(dead_paths.get(r["function"], [])) >= r["paths"]:
            checker_errors.append("%s: every path has unsatisfiable assumptions (vacuous contract)" % r["function"])
    if not results and not extra_results:
        checker_errors.append("no contract or check is registered for property %s" % pid)
    # samples: a few obligations written out
    for ob in all_obs[:6] + [o for o in all_obs if o["status"] != "proved"][:6]:
        samples.append({k: ob.get(k) for k in ("function", "name", "kind", "status", "seconds", "backend", "note") if ob.get(k) is not None})
    printed = []
    for f, ob in known_hit:
        line = "KNOWN-FINDING: property=%s %s" % (pid, f.get("what", ob["name"]))
        if line not in printed:
            print(line)
            printed.append(line)
    vio_lines = []
    for ob in violations:
        rp = ob.get("replay") or {}
        fname = "%s-%s-%s.json" % (pid, (ob.get("function") or "x").replace(":", "_").replace(".", "_"), ob["name"].replace("/", "_").replace(":", "_").replace(" ", "_")[:80])
        fname = re.sub(r"[^A-Za-z0-9_.#@=+\-]", "_", fname)  # no blanks or shell characters in the path printed on the VIOLATION line
        path = os.path.join(ROOT, "replays", fname)
        doc = dict(property=pid, function=ob.get("function"), obligation=ob["name"], kind=ob.get("kind"), line=ob.get("line"), clause=ob.get("note"), solver_status=ob["status"], backend=ob.get("backend"), replay=rp)
        with open(path, "w") as f:
            json.dump(doc, f, indent=1, default=str)
        suffix = "" if rp.get("verdict") == "violates" else " no-failing-input-found"
        line = "VIOLATION property=%s replay=%s%s" % (pid, path, suffix)
        vio_lines.append(line)
        print(line)
        print("  obligation %s of %s refuted (%s); replay verdict: %s -- %s" % (ob["name"], ob.get("function"), ob.get("backend"), rp.get("verdict"), (rp.get("detail") or "")[:200]))
    for u in undecided:
        print("UNDECIDED property=%s %s %s (%s) %s" % (pid, u.get("function", ""), u["name"], u["status"], (u.get("note") or "")[:160]))
    for e in checker_errors:
        print("CHECKER-ERROR property=%s %s" % (pid, e))
    wall = time.time() - t0
    trusted = [
        "pyvc VC generator (symbolic execution of the ast read from /repo at run time; semantics listed in DESIGN.md 2.2)",
        "z3 %s / cvc5 as decision procedures" % _z3v(),
        "induction principle for the sum lemmas (base+step proved by z3 on every run)",
        "schema (type invariants of the integration objects) as stated in contracts/*_schema.py",
        "machine arithmetic treated as mathematical reals unless the clause is marked FPSTD",
    ]
    scope = {}
    try:
        sys.path.insert(0, os.path.join(ROOT, "tools"))
        import claims

        scope = claims.CLAIMS.get(pid, {})
    except Exception:
        pass
    ev = dict(
        property_id=pid,
        tier=tier,
        seed=seed,
        level="proof",
        coverage=dict(
            obligations=obligations,
            discharged=discharged,
            checker_cmd="./check %s --tier %s" % (pid, tier),
            trusted_base=trusted,
            samples=samples,
            functions_under_contract=functions,
            backends=backends,
            solver_seconds=round(solver_s, 2),
            known_findings_reported=[f.get("what") for f, _ in known_hit],
            dead_paths=dead_paths,
            path_liveness_undecided=maybe_dead,
            bounded_stand_ins=bounded,
            undecided=[dict(function=u.get("function"), name=u["name"], status=u["status"]) for u in undecided],
            refuted=[dict(function=o.get("function"), name=o["name"], replay_verdict=(o.get("replay") or {}).get("verdict")) for o in violations],
            explanation="every obligation generated from the current source of the functions under contract, one SMT query each (plus lemma side proofs); structural clauses are decided on the AST",
            claimed_scope=scope.get("text", ""),
            assumed_or_not_decided=scope.get("note", ""),
        ),
        assumptions=sorted(assumptions) + ["wf(model): list elements pairwise distinct, arrays owned by their object, class sets as in the schema"],
        wall_s=round(wall, 2),
        violations=len(violations),
    )
    if not args.no_evidence:
        os.makedirs(os.path.join(ROOT, "evidence"), exist_ok=True)
        with open(os.path.join(ROOT, "evidence", "%s.json" % pid), "w") as f:
            json.dump(ev, f, indent=1, default=str)
    print("property %s tier %s: %d obligations, %d discharged, %d refuted, %d known, %d undecided, %d checker errors, %.1fs" % (pid, tier, obligations, discharged, len(violations), len(known_hit), len(undecided), len(checker_errors), wall))
    if checker_errors:
        return 3
    if violations:
        return 1
    if undecided:
        return 2
    return 0


def _z3v():
    try:
        import z3

        return z3.get_version_string()
    except Exception:
        return "?"


def do_replay(path):
    from pyvc import replay

    doc = json.load(open(path))
    rp = doc.get("replay") or {}
    desc = rp.get("prestate")
    if not desc:
        print("replay file carries no pre-state (no-failing-input-found): obligation %s, solver status %s" % (doc.get("obligation"), doc.get("solver_status")))
        print(json.dumps(rp, indent=1)[:2000])
        return 0
    reg, schemas, extras = load_registry()
    _REGISTRY.update(reg)
    c = reg[doc["function"]]
    res = replay.run_replay(desc, c, doc["obligation"].split("/")[0] if doc.get("kind") == "post" else None)
    print(json.dumps(replay.jsonable({k: v for k, v in res.items() if k != "prestate"}), indent=1))
    return 1 if res.get("verdict") == "violates" else 0


if __name__ == "__main__":
    sys.exit(main())
