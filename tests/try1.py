import sys, time
sys.path.insert(0, '/verif')
from pyvc import verify
from contracts.model_schema import SCHEMA
C = dict(
    params={"ti": "int"},
    requires=["0 <= ti", "ti < len(self.vals)", "self.vals[ti] >= 0", "all(l._cache >= 0 for l in self.outlinks)",
              "all(0 <= ti and ti < len(l.vals) for l in self.outlinks)", "all(not isinstance(l, TimedLink) for l in self.outlinks)"],
    modifies=["self._cached_outflow", "l.vals[ti] for l in self.outlinks"],
    ensures=[
        ("C01.total", "self._cached_outflow == sum(l.vals[ti] for l in self.outlinks)"),
        ("C02.sign", "all(l.vals[ti] >= 0 for l in self.outlinks)"),
        ("C02.overdraw", "self._cached_outflow <= self.vals[ti]"),
        ("C02.ratio", "all(a.vals[ti] * b._cache == b.vals[ti] * a._cache for a in self.outlinks for b in self.outlinks)"),
        ("C03.formula", "all(l.vals[ti] * max(1, sum(x._cache for x in self.outlinks)) == l._cache * self.vals[ti] for l in self.outlinks)"),
        ("canary", "self._cached_outflow < self.vals[ti]"),
    ])
t=time.time()
rep = verify.verify_function("model:Compartment.resolve_outflows", C, SCHEMA)
print("paths", rep.paths, "unsupported", rep.unsupported, "%.2fs"%(time.time()-t), "side proofs", rep.lemma_side_proofs)
for ob in rep.obligations:
    print("%-10s %-8s %-60s %.2fs %s" % (ob.status, ob.kind, ob.name, ob.seconds, (ob.note or '')[:60] if ob.status not in ('proved',) else ''))
for ob in rep.obligations:
    if ob.status=='refuted' and ob.name.startswith(('C02.overdraw/p1','C01.total/p1')):
        print('=====',ob.name); print(ob.goal)
