#!/bin/sh
# tests/mutant.sh '<sed expr>' <file under atomica/> <property>...   -- run checks against a scratch copy with one edit
set -e
D=$(mktemp -d /tmp/mutXXXXXX)
cp -r /repo/atomica "$D/"
sed -i "$1" "$D/atomica/$2"
if diff -q /repo/atomica/$2 "$D/atomica/$2" >/dev/null; then echo "MUTANT DID NOT CHANGE THE FILE"; rm -rf "$D"; exit 9; fi
shift 2
for p in "$@"; do
  ATOMICA_REPO="$D" /verif/check "$p" --no-evidence 2>&1 | grep -E "VIOLATION|UNDECIDED|CHECKER|^property|replay verdict" | cut -c1-260
done
rm -rf "$D"
