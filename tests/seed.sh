#!/bin/sh
# tests/seed.sh <patch.diff> <property>...   -- run checks against a scratch copy of /repo with the patch applied
D=$(mktemp -d /tmp/seedXXXXXX)
cp -r /repo/atomica "$D/"
(cd "$D" && patch -p1 -s < "$1") || { echo "PATCH FAILED"; rm -rf "$D"; exit 9; }
shift
for p in "$@"; do
  ATOMICA_REPO="$D" /verif/check "$p" --no-evidence 2>&1 | grep -E "VIOLATION|UNDECIDED|CHECKER|^property|replay verdict" | cut -c1-300
done
rm -rf "$D"
