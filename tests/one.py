import sys, time
sys.path.insert(0, '/verif')
from pyvc import run, verify
reg, schemas, extras = run.load_registry()
q = sys.argv[1]; pid = sys.argv[2] if len(sys.argv) > 2 else None
c = reg[q]
if pid: c = run.contract_for_property(c, pid)
t = time.time()
rep = verify.verify_function(q, c, schemas[c.get("schema")], timeout_ms=10000, contracts=reg)
print("paths", rep.paths, "unsupported", rep.unsupported, "%.2fs" % (time.time() - t), "side proofs", rep.lemma_side_proofs)
for ob in rep.obligations:
    print("%-10s %-8s %-60s %.2fs %s" % (ob.status, ob.kind, ob.name, ob.seconds, (ob.note or '')[:80] if ob.status not in ('proved',) else ''))
    if ob.status != 'proved' and ob.kind != 'cover' and '-v' in sys.argv:
        print(ob.goal)
